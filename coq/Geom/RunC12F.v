(* EXTRACT-F: c12f frun_c12f *)
(* Float-wire entry point of C12: Interface::contains / solid angle on a triangle soup (op 30). *)
From Coq Require Import ZArith List Bool.
From OM Require Import Base.Ops Base.Vec3 Geom.Kernels Geom.Contains.
Import ListNotations.

Section Run.
Context {F : Type} (o : Ops F).
Fixpoint take3s (n : nat) (l : list F) : option (list (vec3 F) * list F) :=
  match n with
  | O => Some ([], l)
  | S n' => match l with
            | a :: b :: c :: r => match take3s n' r with Some (vs, r') => Some (mkV a b c :: vs, r') | None => None end
            | _ => None
            end
  end.
Definition vnth0 (vs : list (vec3 F)) (i : Z) : vec3 F := nth (Z.to_nat i) vs (mkV (f0 o) (f0 o) (f0 o)).
Fixpoint tris (vs : list (vec3 F)) (n : nat) (zs : list Z) : option (list (@triangle F) * list Z) :=
  match n with
  | O => Some ([], zs)
  | S n' => match zs with
            | a :: b :: c :: r => match tris vs n' r with Some (ts, r') => Some ((vnth0 vs a, vnth0 vs b, vnth0 vs c) :: ts, r') | None => None end
            | _ => None
            end
  end.
Fixpoint meshes (vs : list (vec3 F)) (n : nat) (zs : list Z) : option (list (Z * list (@triangle F))) :=
  match n with
  | O => match zs with [] => Some [] | _ => None end
  | S n' => match zs with
            | sg :: nt :: r => match tris vs (Z.to_nat nt) r with
                               | Some (ts, r') => match meshes vs n' r' with Some ms => Some ((if Z.ltb 0 sg then 1%Z else (-1)%Z, ts) :: ms) | None => None end
                               | None => None
                               end
            | _ => None
            end
  end.
Definition frun_c12f (zs : list Z) (fs : list F) : list Z * list F :=
  match zs, fs with
  | 30%Z :: nv :: nm :: r, px :: py :: pz :: fr =>
      match take3s (Z.to_nat nv) fr with
      | Some (vs, []) =>
          match meshes vs (Z.to_nat nm) r with
          | Some ifc => let s := iface_solid_angle o (mkV px py pz) ifc in
                      ([0%Z; if contains_of_angle o s then 1%Z else 0%Z], [s])
          | None => ([(-1)%Z], [])
          end
      | _ => ([(-1)%Z], [])
      end
  | _, _ => ([(-1)%Z], [])
  end.
End Run.
