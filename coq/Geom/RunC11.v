(* EXTRACT-F: c11 frun_c11 *)
(* Wire decoding + entry point of the C11 correspondence: the abstract description, the two geometric oracles
   and the conductivities come in; everything Geometry derives goes out. *)
From OM Require Import Base.Lists Base.Ops Base.Wire Geom.GeomModel Geom.CondFile.
Local Open Scope Z_scope.

Definition getTri : dec (nat * nat * nat) := do a <- getN; do b <- getN; do c <- getN; ret (a, b, c).
Definition getMesh : dec mesh :=
  do np <- getN; do ps <- getNs np; do nt <- getN; do ts <- getMany nt getTri; ret (mkMesh ps ts).
Definition getOM : dec (Z * nat) := do s <- getZ; do m <- getN; ret (s, m).
Definition getIface : dec (list (Z * nat)) := do n <- getN; getMany n getOM.
Definition getBound : dec (bool * nat) := do s <- getZ; do i <- getN; ret (negb (s =? 0), i).
Definition getDomain : dec (list (bool * nat)) := do n <- getN; getMany n getBound.
Definition getBools (n : nat) : dec (list bool) := do l <- getZs n; ret (map (fun z => negb (z =? 0)) l).

(* conductivity file: has_cond, header ok, lines (kind 0 comment / 1 entry, name id), domain name ids *)
Record c11cond := mkCC { cc_has : bool; cc_header : bool; cc_lines : list (Z * nat); cc_names : list nat }.
Record c11case := mkCase { c_old : bool; c_desc : desc; c_isign : list Z; c_probes : list (list bool); c_cond : c11cond }.

Definition getCase : dec c11case :=
  do old <- getZ;
  do nm <- getN; do ms <- getMany nm getMesh;
  do ni <- getN; do ifs <- getMany ni getIface;
  do ss <- getZs ni;
  do nd <- getN; do ds <- getMany nd getDomain;
  do np <- getN; do ps <- getMany np (getBools ni);
  do hc <- getZ; do hd <- getZ; do nl <- getN; do ls <- getMany nl (do k <- getZ; do n <- getN; ret (k, n));
  do nms <- getNs nd;
  ret (mkCase (negb (old =? 0)) (mkDesc ms ifs ds) ss ps (mkCC (negb (hc =? 0)) (negb (hd =? 0)) ls nms)).

Definition zb (b : bool) : Z := if b then 1 else 0.
Definition zopt (o : option nat) : Z := match o with Some k => zn k | None => -1 end.
Definition st_code (s : status) : Z := match s with StOk => ST_OK | StAssert => ST_ASSERT | StOther => ST_OTHER end.

Definition out_tri (t : nat * nat * nat) : list Z := let '(a, b, c) := t in [zn a; zn b; zn c].

Definition out_mesh (m : lmesh) (f : flags) (tidx : list Z) : list Z :=
  [zb (f_cb f); zb (f_iso f); zb (f_out f); zn (length (lm_verts m))] ++ map zn (lm_verts m)
  ++ [zn (length (lm_tris m))] ++ tidx ++ flat_map out_tri (lm_tris m).

Fixpoint out_meshes (ms : list lmesh) (fl : list flags) (ts : list (list Z)) : list Z :=
  match ms with
  | [] => []
  | m :: r => out_mesh m (hd flags0 fl) (hd [] ts) ++ out_meshes r (tl fl) (tl ts)
  end.

Definition out_bound (b : gbound) : list Z :=
  [zb (b_inside b); zn (length (b_om b))] ++ flat_map (fun om => [fst om; zn (snd om)]) (b_om b).
Definition out_domain (d : list gbound) : list Z := zn (length d) :: flat_map out_bound d.

Definition all_pairs (n : nat) : list (nat * nat) := flat_map (fun i => map (fun j => (i, j)) (seq 0 n)) (seq 0 n).

Section Run.
Context {F : Type} (o : Ops F).

Fixpoint build_lines (ks : list (Z * nat)) (fs : list F) : list (cline F) :=
  match ks with
  | [] => []
  | (k, n) :: r => if k =? 0 then CComment :: build_lines r fs
                   else match fs with
                        | v :: fr => CEntry n v :: build_lines r fr
                        | [] => build_lines r []
                        end
  end.

(* Geometry::load(geom) leaves every conductivity at -1; load(geom,cond) attaches them by name *)
Definition conductivities (c : c11case) (fs : list F) : option (list F) :=
  let cc := c_cond c in
  if cc_has cc then load_cond (cc_header cc) (build_lines (cc_lines cc) fs) (cc_names cc)
  else Some (map (fun _ => fofZ o (-1)) (cc_names cc)).

Definition run_case (c : c11case) (fs : list F) : list Z * list F :=
  match load_geom (c_desc c) (c_isign c), conductivities c fs with
  | None, _ => ([ST_OTHER], [])
  | _, None => ([ST_OTHER], [])
  | Some g, Some conds =>
    match ffinalize o g conds (c_old c) with
    | (StOk, Some fi) =>
      let mk := fi_marks fi in
      let ix := fi_idx fi in
      let nm := length (g_meshes g) in
      let prs := all_pairs nm in
      ( [ST_OK; zn (g_nv g)] ++ ix_v ix
        ++ [zn nm] ++ out_meshes (g_meshes g) (mk_flags mk) (ix_t ix)
        ++ [ix_n ix; ix_nb ix; zn (length (mk_invalid mk)); zb (fi_nested fi); zopt (fi_outer fi)]
        ++ [zn (length (fi_pairs fi))] ++ flat_map (fun p => let '(i, j, s) := p in [zn i; zn j; s]) (fi_pairs fi)
        ++ map (fun p => relative_orientation g (fst p) (snd p)) prs
        ++ [zn (length (mk_parts mk))] ++ flat_map (fun p => zn (length p) :: map zn p) (mk_parts mk)
        ++ map (fun ins => zopt (domain_of_point g (fun i => nth i ins false))) (c_probes c)
        ++ [zn (length (g_doms g))] ++ flat_map out_domain (g_doms g),
        flat_map (fun p => [sigma o g conds (fst p) (snd p); sigma_inv o g conds (fst p) (snd p);
                            indicator o g conds (fst p) (snd p)]) prs
        ++ map (conductivity_jump o g conds) (seq 0 nm) ++ conds )
    | (st, _) => ([st_code st], [])
    end
  end.

Definition frun_c11 (w : list Z) (fs : list F) : list Z * list F :=
  match getCase w with
  | Some (c, []) => run_case c fs
  | _ => ([-1], [])
  end.
End Run.
