(* EXTRACT-F: c11 frun_c11 *)
(* Wire decoding + entry point of the C11 correspondence: the abstract description, the two geometric oracles
   and the conductivities come in; everything Geometry derives goes out. *)
From OM Require Import Base.Lists Base.Ops Base.Wire Geom.GeomModel Geom.CondFile Geom.GeomFile Geom.SaveGeom.
Local Open Scope Z_scope.

Definition getTri : dec (nat * nat * nat) := do a <- getN; do b <- getN; do c <- getN; ret (a, b, c).
Definition getMesh : dec mesh :=
  do np <- getN; do ps <- getNs np; do nt <- getN; do ts <- getMany nt getTri; ret (mkMesh ps ts).
Definition getOM : dec (Z * nat) := do s <- getZ; do m <- getN; ret (s, m).
Definition getIface : dec (list (Z * nat)) := do n <- getN; getMany n getOM.
Definition getBound : dec (bool * nat) := do s <- getZ; do i <- getN; ret (negb (s =? 0), i).
Definition getDomain : dec (list (bool * nat)) := do n <- getN; getMany n getBound.
Definition getBools (n : nat) : dec (list bool) := do l <- getZs n; ret (map (fun z => negb (z =? 0)) l).

(* conductivity file: has_cond, header ok, lines (kind 0 comment / 1 entry, name id) *)
Record c11cond := mkCC { cc_has : bool; cc_header : bool; cc_lines : list (Z * nat) }.
Record c11case := mkCase { c_old : bool; c_file : gfile; c_numnames : list nat; c_isign : list Z; c_probes : list (list bool); c_cond : c11cond }.

Definition getOptName : dec (option nat) := do h <- getZ; do n <- getN; ret (if h =? 0 then None else Some n).
Definition getSgn : dec sgn := do s <- getZ; ret (if s =? 1 then SPlus else if s =? 2 then SMinus else SNone).
Definition getSTok : dec (sgn * nat) := do s <- getSgn; do n <- getN; ret (s, n).
Definition getDTok : dec dtok := do k <- getZ; do t <- getSTok; ret (if k =? 0 then DTok t else DShared).
Definition getNamedMesh : dec (option nat * mesh) := do g <- getOptName; do m <- getMesh; ret (g, m).
Definition getNamedIface : dec (option nat * list (sgn * nat)) := do g <- getOptName; do n <- getN; do ts <- getMany n getSTok; ret (g, ts).
Definition getNamedDomain : dec (nat * list dtok) := do g <- getN; do n <- getN; do ts <- getMany n getDTok; ret (g, ts).

Definition getCase : dec c11case :=
  do old <- getZ;
  do v <- getZ; do hm <- getZ;
  do nm <- getN; do ms <- getMany nm getNamedMesh;
  do ni <- getN; do ifs <- getMany ni getNamedIface;
  let nif := if hm =? 0 then nm else ni in
  do ss <- getZs nif;
  do nd <- getN; do ds <- getMany nd getNamedDomain;
  do nn <- getN; do nns <- getNs nn;
  do np <- getN; do ps <- getMany np (getBools nif);
  do hc <- getZ; do hd <- getZ; do nl <- getN; do ls <- getMany nl (do k <- getZ; do n <- getN; ret (k, n));
  let f := mkGFile (if v =? 0 then V10 else V11) (if hm =? 0 then None else Some ms) (if hm =? 0 then ms else []) ifs ds in
  ret (mkCase (negb (old =? 0)) f nns ss ps (mkCC (negb (hc =? 0)) (negb (hd =? 0)) ls)).

Definition zb (b : bool) : Z := if b then 1 else 0.
Definition zopt (o : option nat) : Z := match o with Some k => zn k | None => -1 end.
Definition st_code (s : status) : Z := match s with StOk => ST_OK | StAssert => ST_ASSERT | StOther => ST_OTHER end.

Definition out_tri (t : nat * nat * nat) : list Z := let '(a, b, c) := t in [zn a; zn b; zn c].

Definition out_mesh (m : lmesh) (f : flags) (tidx : list Z) : list Z :=
  [zb (f_cb f); zb (f_iso f); zb (f_out f); zn (length (lm_verts m))] ++ map zn (lm_verts m)
  ++ [zn (length (lm_tris m))] ++ tidx ++ flat_map out_tri (lm_tris m).

Fixpoint out_meshes (ms : list lmesh) (fl : list flags) (ts : list (list Z)) : list Z :=
  match ms with
  | [] => []
  | m :: r => out_mesh m (hd flags0 fl) (hd [] ts) ++ out_meshes r (tl fl) (tl ts)
  end.

Definition out_bound (b : gbound) : list Z :=
  [zb (b_inside b); zn (length (b_om b))] ++ flat_map (fun om => [fst om; zn (snd om)]) (b_om b).
Definition out_domain (d : list gbound) : list Z := zn (length d) :: flat_map out_bound d.

Definition all_pairs (n : nat) : list (nat * nat) := flat_map (fun i => map (fun j => (i, j)) (seq 0 n)) (seq 0 n).

Section Run.
Context {F : Type} (o : Ops F).

Fixpoint build_lines (ks : list (Z * nat)) (fs : list F) : list (cline F) :=
  match ks with
  | [] => []
  | (k, n) :: r => if k =? 0 then CComment :: build_lines r fs
                   else match fs with
                        | v :: fr => CEntry n v :: build_lines r fr
                        | [] => build_lines r []
                        end
  end.

(* Geometry::load(geom) leaves every conductivity at -1; load(geom,cond) attaches them by name *)
Definition conductivities (c : c11case) (names : list nat) (fs : list F) : option (list F) :=
  let cc := c_cond c in
  if cc_has cc then load_cond (cc_header cc) (build_lines (cc_lines cc) fs) names
  else Some (map (fun _ => fofZ o (-1)) names).

Definition load_all (c : c11case) (fs : list F) : option (geom * list F) :=
  match parse_geom (fun k => nth k (c_numnames c) 0%nat) (c_file c) with
  | None => None
  | Some p => match load_geom (p_desc p) (c_isign c), conductivities c (p_domain_names p) fs with
              | Some g, Some conds => Some (g, conds)
              | _, _ => None
              end
  end.

Definition run_case (c : c11case) (fs : list F) : list Z * list F :=
  match load_all c fs with
  | None => ([ST_OTHER], [])
  | Some (g, conds) =>
    match ffinalize o g conds (c_old c) with
    | (StOk, Some fi) =>
      let mk := fi_marks fi in
      let ix := fi_idx fi in
      let nm := length (g_meshes g) in
      let prs := all_pairs nm in
      ( [ST_OK; zn (g_nv g)] ++ ix_v ix
        ++ [zn nm] ++ out_meshes (g_meshes g) (mk_flags mk) (ix_t ix)
        ++ [ix_n ix; ix_nb ix; zn (length (mk_invalid mk)); zb (fi_nested fi); zopt (fi_outer fi)]
        ++ [zn (length (fi_pairs fi))] ++ flat_map (fun p => let '(i, j, s) := p in [zn i; zn j; s]) (fi_pairs fi)
        ++ map (fun p => relative_orientation g (fst p) (snd p)) prs
        ++ [zn (length (mk_parts mk))] ++ flat_map (fun p => zn (length p) :: map zn p) (mk_parts mk)
        ++ map (fun ins => zopt (domain_of_point g (fun i => nth i ins false))) (c_probes c)
        ++ [zn (length (g_doms g))] ++ flat_map out_domain (g_doms g)
        (* Geometry::save to a .geom file: the Meshes and Interfaces sections *)
        ++ [zn (length (saved_meshes g))] ++ map zn (saved_meshes g)
        ++ [zn (length (saved_ifaces g))]
        ++ flat_map (fun i => zn (length (snd i)) :: flat_map (fun om => [fst om; zn (snd om)]) (snd i)) (saved_ifaces g)
        (* number of triangles whose stored normal / area disagree with their (repaired) vertex order: Mesh::update
           computes them after correct_local_orientation, so there is none *)
        ++ [0],
        flat_map (fun p => [sigma o g conds (fst p) (snd p); sigma_inv o g conds (fst p) (snd p);
                            indicator o g conds (fst p) (snd p)]) prs
        ++ map (conductivity_jump o g conds) (seq 0 nm) ++ conds )
    | (st, _) => ([st_code st], [])
    end
  end.

Definition frun_c11 (w : list Z) (fs : list F) : list Z * list F :=
  match getCase w with
  | Some (c, []) => run_case c fs
  | _ => ([-1], [])
  end.
End Run.
