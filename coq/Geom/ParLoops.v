(* C05 -- a small concurrency model for the OpenMP "parallel for" regions of the assembly code.

   store      : slot -> F         (slot = container id * linear index inside the container)
   iteration  : list action       (straight line: the control flow of an iteration of the assembly loops
                                    depends on the geometry only, never on the values in the shared containers)
   action     : Act (Read s) | Act (Write s f) | Crit [basic...] | Throw e
                a write's value is a function of the values this iteration has read so far (most recent first);
                Crit is executed atomically (omp critical); Throw models an exception leaving the lambda
                handed to ThreadException::Run: the rest of the body is skipped and the exception pointer is
                assigned under the mutex (one atomic step).
   schedule   : list nat -- "thread i performs its next action"; ANY list is accepted (a step of a finished
                or non-existent iteration is a no-op); a schedule is complete when every iteration is finished.
                This contains every interleaving that respects program order and atomicity of critical sections.
   No proofs in this file. *)
From OM Require Import Base.Lists.
Local Open Scope Z_scope.

Notation slot := (nat * Z)%type.

Definition slot_eqb (a b : slot) : bool := (Nat.eqb (fst a) (fst b) && Z.eqb (snd a) (snd b))%bool.

Section Model.
  Variable F : Type.      (* numbers: any type at all (doubles in the code) *)
  Variable E : Type.      (* exception values *)

  Definition store := slot -> F.
  Definition supd (st : store) (s : slot) (x : F) : store := fun t => if slot_eqb s t then x else st t.

  Inductive basic :=
  | Read (s : slot)
  | Write (s : slot) (f : list F -> F).

  Inductive action :=
  | Act (b : basic)
  | Crit (bs : list basic)
  | Throw (e : E).

  Definition bslot (b : basic) : slot := match b with Read s => s | Write s _ => s end.
  Definition is_write (b : basic) : bool := match b with Read _ => false | Write _ _ => true end.

  (* ---- semantics of one iteration's actions on (store, values read so far) ---- *)
  Definition sem_b (b : basic) (se : store * list F) : store * list F :=
    match b with
    | Read s => (fst se, fst se s :: snd se)
    | Write s f => (supd (fst se) s (f (snd se)), snd se)
    end.
  Definition sem_bs (bs : list basic) (se : store * list F) : store * list F :=
    fold_left (fun se b => sem_b b se) bs se.

  (* the basics an iteration really executes: up to its first Throw *)
  Fixpoint flat (it : list action) : list basic :=
    match it with
    | [] => []
    | Act b :: r => b :: flat r
    | Crit bs :: r => bs ++ flat r
    | Throw _ :: _ => []
    end.
  (* every basic occurring in the text of the iteration, with "inside a critical section" flag *)
  Fixpoint accesses (it : list action) : list (basic * bool) :=
    match it with
    | [] => []
    | Act b :: r => (b, false) :: accesses r
    | Crit bs :: r => map (fun b => (b, true)) bs ++ accesses r
    | Throw _ :: r => accesses r
    end.
  Definition all_basics (it : list action) : list basic := map fst (accesses it).
  Fixpoint athrows (it : list action) : option E :=
    match it with
    | [] => None
    | Throw e :: _ => Some e
    | _ :: r => athrows r
    end.

  (* sequential execution: iteration after iteration, each with a fresh private environment *)
  Definition run_iter (it : list action) (st : store) : store := fst (sem_bs (flat it) (st, [])).
  Definition run_seq (its : list (list action)) (st : store) : store :=
    fold_left (fun st it => run_iter it st) its st.

  (* ---- interleaved execution ---- *)
  Record thread := { t_env : list F; t_rest : list action }.
  Record config := { c_store : store; c_ptr : option E; c_threads : list thread }.

  Definition init (its : list (list action)) (st : store) : config :=
    {| c_store := st; c_ptr := None; c_threads := map (fun it => {| t_env := []; t_rest := it |}) its |}.

  Definition step (i : nat) (c : config) : config :=
    match nth_error (c_threads c) i with
    | None => c
    | Some th =>
      match t_rest th with
      | [] => c
      | Act b :: r =>
          let se := sem_b b (c_store c, t_env th) in
          {| c_store := fst se; c_ptr := c_ptr c; c_threads := upd (c_threads c) i {| t_env := snd se; t_rest := r |} |}
      | Crit bs :: r =>
          let se := sem_bs bs (c_store c, t_env th) in
          {| c_store := fst se; c_ptr := c_ptr c; c_threads := upd (c_threads c) i {| t_env := snd se; t_rest := r |} |}
      | Throw e :: _ =>
          {| c_store := c_store c; c_ptr := Some e; c_threads := upd (c_threads c) i {| t_env := t_env th; t_rest := [] |} |}
      end
    end.

  Definition run (sch : list nat) (c : config) : config := fold_left (fun c i => step i c) sch c.

  Definition finished (c : config) : Prop := forall th, In th (c_threads c) -> t_rest th = [].

  (* the schedule "iteration 0 to completion, then iteration 1, ..." *)
  Fixpoint seq_sched_from (k : nat) (its : list (list action)) : list nat :=
    match its with
    | [] => []
    | it :: r => repeat k (length it) ++ seq_sched_from (S k) r
    end.
  Definition seq_sched (its : list (list action)) : list nat := seq_sched_from O its.

  (* ---- footprints, conflicts, race freedom ---- *)
  Definition conflict (a b : basic) : Prop := bslot a = bslot b /\ (is_write a = true \/ is_write b = true).

  (* owner computes: distinct iterations never touch the same slot unless both only read it *)
  Definition conflict_free (its : list (list action)) : Prop :=
    forall i j iti itj a b, i <> j -> nth_error its i = Some iti -> nth_error its j = Some itj ->
      In a (all_basics iti) -> In b (all_basics itj) -> ~ conflict a b.

  (* data-race freedom: conflicting accesses of distinct iterations are both inside critical sections *)
  Definition DRF (its : list (list action)) : Prop :=
    forall i j iti itj a b, i <> j -> nth_error its i = Some iti -> nth_error its j = Some itj ->
      In a (accesses iti) -> In b (accesses itj) -> conflict (fst a) (fst b) -> snd a = true /\ snd b = true.

  Definition store_eq (s1 s2 : store) : Prop := forall t, s1 t = s2 t.

  (* ---- statement shapes used by the generated loop descriptors ---- *)
  Variable fadd : F -> F -> F.
  Variable f0 : F.

  (*  X(..) = g(values of the slots rs)  *)
  Definition assign (rs : list slot) (s : slot) (g : list F -> F) : list basic :=
    map Read rs ++ [Write s (fun env => g (firstn (length rs) env))].
  (*  X(..) += g(values of the slots rs): read-modify-write, two separate accesses *)
  Definition accum (rs : list slot) (s : slot) (g : list F -> F) : list basic :=
    map Read rs ++ [Read s; Write s (fun env => fadd (hd f0 env) (g (firstn (length rs) (tl env))))].

  (* a list of "s += v" with values that do not depend on shared data *)
  Definition accum_list (svs : list (slot * F)) : list basic :=
    flat_map (fun sv => accum [] (fst sv) (fun _ => snd sv)) svs.
  Definition apply_accs (svs : list (slot * F)) (st : store) : store :=
    fold_left (fun st sv => supd st (fst sv) (fadd (st (fst sv)) (snd sv))) svs st.

  (* an iteration that raises after its first n actions (n = 0: immediately) *)
  Definition throw_at (x : option (nat * E)) (body : list action) : list action :=
    match x with
    | None => body
    | Some (n, e) => firstn n body ++ [Throw e]
    end.

  (* ---- a parallel region as the translator describes it ---- *)
  Record region := { r_its : list (list action);
                     r_wrapped : bool;      (* the whole loop body is inside ThreadException::Run *)
                     r_rethrow : bool }.    (* e.Rethrow() follows the region *)

  Inductive outcome := Returned (st : store) | Raised (e : E) | Terminated.
  (* what the caller of the region observes for a complete schedule *)
  Definition region_outcome (r : region) (sch : list nat) (st : store) : outcome :=
    let c := run sch (init (r_its r) st) in
    match c_ptr c with
    | None => Returned (c_store c)
    | Some e => if r_wrapped r then (if r_rethrow r then Raised e else Returned (c_store c)) else Terminated
    end.
End Model.

Arguments Read {F} s.
Arguments Write {F} s f.
Arguments Act {F E} b.
Arguments Crit {F E} bs.
Arguments Throw {F E} e.

(* ---- abstract geometry seen by the loops: only indices matter for footprints ---- *)
Record tri := { t_index : Z; t_vertex : Z -> Z }.     (* triangle.index(), triangle.vertex(k).index() *)
Definition dtri : tri := {| t_index := 0; t_vertex := fun _ => 0 |}.
(* a vertex is represented by its index: vertexp->index() *)
Notation vert := Z (only parsing).

(* containers *)
Definition pidx (i j : Z) : Z := if i <=? j then i + j * (j + 1) / 2 else j + i * (i + 1) / 2.   (* SymMatrix *)
Definition cmidx (nlin : Z) (i j : Z) : Z := i + nlin * j.                                          (* Matrix *)
Definition vidx (i : Z) : Z := i.                                                                   (* Vector *)

(* footprint of a region as plain data (for the correspondence with the instrumented containers):
   per iteration the list of (container, linear index, 0 read / 1 write, 0 plain / 1 critical) *)
Definition footprint {F E} (its : list (list (action F E))) : list (list (nat * Z * Z * Z)) :=
  map (fun it => map (fun a : basic F * bool => (fst (bslot F (fst a)), snd (bslot F (fst a)),
                                 if is_write F (fst a) then 1 else 0, if snd a then 1 else 0)) (accesses F E it)) its.
