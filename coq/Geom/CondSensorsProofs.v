(* C19: the .cond definition loop terminates within the size of its input (no hang) and the sensors reader only
   accepts files whose lines all have the same number of columns. *)
From OM Require Import Base.Lists Geom.CondSensors.
Require Import ZifyBool ZifyNat.
Local Open Scope Z_scope.

Lemma cnext_total s : forall t s', cnext s = Some (t, s') -> (ctotal s' + 1 <= ctotal s)%nat.
Proof.
  unfold ctotal. induction s as [|l r IH]; intros t s' H; cbn [cnext] in H; [discriminate|].
  destruct l as [|x l'].
  - apply IH in H. cbn [concat app length]. lia.
  - inversion H; subst. cbn [concat app length]. rewrite !app_length. lia.
Qed.
Lemma tl_total (s : cstream) : (ctotal (tl s) <= ctotal s)%nat.
Proof. unfold ctotal. destruct s as [|l r]; cbn [tl concat length]; [lia|]. rewrite app_length. lia. Qed.
Lemma cskip_total fuel : forall s, (ctotal (cskip fuel s) <= ctotal s)%nat.
Proof.
  induction fuel as [|f IH]; intros s; cbn [cskip]; [lia|].
  destruct (cnext s) as [[t s']|] eqn:E; [|lia]. destruct (c_hash t); [|lia].
  apply cnext_total in E. specialize (IH (tl s')). assert (T := tl_total s'). lia.
Qed.

(* every turn of the loop consumes input: with fuel above the size of the file the loop has ended by itself --
   the model of the reader cannot spin (the repaired reader: a failed value is an error, a missing name ends the loop) *)
Theorem cond_loop_terminates fuel : forall s acc, (ctotal s < fuel)%nat -> cond_loop fuel s acc <> CFuel.
Proof.
  induction fuel as [|f IH]; intros s acc H; [lia|]. cbn [cond_loop].
  assert (K := cskip_total (S (length s)) s).
  destruct (cnext (cskip (S (length s)) s)) as [[id s1]|] eqn:E1; [|discriminate].
  apply cnext_total in E1.
  destruct (cnext s1) as [[v s2]|] eqn:E2; [|discriminate]. apply cnext_total in E2.
  destruct (c_num v =? 1); [apply IH; lia|].
  destruct (c_num v =? 2); [|discriminate]. apply IH.
  destruct s2 as [|l r]; [unfold ctotal in *; cbn [concat length] in *; lia|].
  unfold ctotal in *. cbn [concat app length] in *. rewrite !app_length in *. cbn [length] in *. lia.
Qed.

Theorem cond_strict_total header_ok s doms : load_cond_strict header_ok s doms = true \/ load_cond_strict header_ok s doms = false.
Proof. destruct (load_cond_strict header_ok s doms); auto. Qed.

(* the answer never comes from running out of fuel *)
Theorem cond_answer_is_own s acc : cond_loop (S (ctotal s)) s acc <> CFuel.
Proof. apply cond_loop_terminates. lia. Qed.

(* accepted => every domain name was defined by a `name value` pair whose value was read *)
Theorem cond_accept_all_defined s doms :
  load_cond_strict true s doms = true ->
  exists names, cond_loop (S (ctotal s)) s [] = COk names /\ forall d, In d doms -> In d names.
Proof.
  unfold load_cond_strict. destruct (cond_loop (S (ctotal s)) s []) as [names| |]; try discriminate.
  intros H. exists names. split; [reflexivity|]. intros d Hd. rewrite forallb_forall in H. specialize (H d Hd).
  apply existsb_exists in H. destruct H as [x [Hx E]]. apply Z.eqb_eq in E. subst. exact Hx.
Qed.

(* ---------- sensors ---------- *)
Theorem sensors_reader_total ls : exists r, sensors_load ls = r.
Proof. eexists. reflexivity. Qed.

(* when both passes ignore the same lines, the reading pass reads exactly the lines the counting pass counted *)
Theorem sensors_passes_agree (cskip rskip : sline -> bool) ls :
  (forall l, cskip l = rskip l) -> read_rows rskip (length (counted cskip ls)) ls = counted cskip ls.
Proof.
  intros E. unfold read_rows, counted.
  replace (filter (fun l => negb (rskip l)) ls) with (filter (fun l => negb (cskip l)) ls)
    by (apply filter_ext; intros l; rewrite E; reflexivity).
  apply firstn_all.
Qed.

Lemma rows_fst (f : nat * sline -> nat) (l : list sline) : forall a,
  map fst (map (fun kr => (s_idx (snd kr), f kr)) (combine (seq a (length l)) l)) = map s_idx l.
Proof. induction l as [|x r IH]; intros a; [reflexivity|]. cbn [length seq combine map fst snd]. rewrite IH. reflexivity. Qed.

Theorem sensors_uniform_columns ls n k nc rows :
  sensors_load ls = SOk n k nc rows ->
  let ne := filter (fun l => negb (s_empty l)) ls in
  n = length ne /\ (3 <= nc)%nat /\ nc <> 4%nat /\ map fst rows = map s_idx ne /\
  exists c, (c = nc \/ c = S nc) /\ forall l, In l ne -> s_ntok l = c.
Proof.
  unfold sensors_load, sensors_load2. cbv zeta. rewrite (sensors_passes_agree s_empty s_empty ls (fun _ => eq_refl)).
  unfold counted. destruct (filter (fun l => negb (s_empty l)) ls) as [|l0 t] eqn:F; [discriminate|].
  destruct (negb (forallb (fun l => Nat.eqb (s_ntok l) (s_ntok l0)) (l0 :: t))) eqn:U; [discriminate|].
  destruct (Nat.eqb (s_ntok l0) 0) eqn:Z0; [discriminate|].
  set (lab := negb (existsb s_dot (l0 :: t))).
  destruct (Nat.ltb (if lab then (s_ntok l0 - 1)%nat else s_ntok l0) 3) eqn:L3; [discriminate|].
  destruct (Nat.eqb (if lab then (s_ntok l0 - 1)%nat else s_ntok l0) 4) eqn:E4; [discriminate|].
  rewrite Nat.eqb_refl. cbn [negb].
  intros H. injection H as H1 H2 H3 H4. subst n k nc rows. split; [reflexivity|].
  apply Nat.ltb_ge in L3. apply Nat.eqb_neq in E4, Z0. split; [exact L3|]. split; [exact E4|]. split.
  { exact (rows_fst (fun kr => if lab then index_of (s_name (snd kr)) (distinct_names (map s_name (l0 :: t)) []) 0%nat else fst kr) (l0 :: t) 0%nat). }
  exists (s_ntok l0). split; [destruct lab; lia|].
  intros l Hl. apply negb_false_iff in U. rewrite forallb_forall in U. specialize (U l Hl). apply Nat.eqb_eq in U. exact U.
Qed.

(* a non-empty line (white space only included) with another number of columns than the first one: refused *)
Theorem sensors_short_line_rejected ls l0 t l :
  filter (fun l => negb (s_empty l)) ls = l0 :: t -> In l t -> s_ntok l <> s_ntok l0 -> sensors_load ls = SErr.
Proof.
  intros F Hl Hn. unfold sensors_load, sensors_load2, counted. rewrite F.
  replace (forallb (fun l1 => Nat.eqb (s_ntok l1) (s_ntok l0)) (l0 :: t)) with false; [reflexivity|].
  symmetry. apply not_true_is_false. intro A. rewrite forallb_forall in A. specialize (A l (or_intror Hl)).
  apply Nat.eqb_eq in A. contradiction.
Qed.
