(* C08 (extension) -- loop structure of SurfSourceMat and EITSourceMat (OpenMEEG/src/assembleSourceMat.cpp:19-62, 102-156).
   Both fill a zero matrix with `mat(r,c) += x` writes produced by nested loops; the model is the list of writes in program
   order applied to a matrix state (list of columns).  The per-pair kernel values are Section variables:
     NV  = BlocksBase::N(V1,V2,mesh,source_mesh,Sbloc)   (depends on the source mesh only through the triangles around V2)
     DV  = integrator.integrate(analyticD3(source triangle).f, triangle1)
     TM  = transmat(triangle.index(), i) of EITSourceMat (built from the geometry alone, before the electrodes are looked at)
   Proofs: SurfEITProofs.v. *)
From Coq Require Import List ZArith Bool Arith.
From OM Require Import Base.Ops Base.Lists Geom.AdaptInt Geom.Sources.
Import ListNotations.

Section SurfEIT.
Context {F : Type} (o : Ops F).
Local Notation "x * y" := (fmul o x y).
Local Notation "x / y" := (fdiv o x y).

(* ---- a matrix being filled: list of columns; write = (row, column, value), executed as mat(row,column) += value ---- *)
Definition write : Type := (nat * nat * F)%type.
Definition wrow (w : write) := fst (fst w).
Definition wcol (w : write) := snd (fst w).
Definition wval (w : write) := snd w.
Definition mat_add (M : list (list F)) (w : write) : list (list F) :=
  upd M (wcol w) (add_at o (nth (wcol w) M []) (wrow w) (wval w)).
Definition zero_mat (nrows ncols : nat) : list (list F) := repeat (zeros o nrows) ncols.
Definition run_writes (nrows ncols : nat) (ws : list write) : list (list F) := fold_left mat_add ws (zero_mat nrows ncols).
(* what reaches column j *)
Definition run_col (nrows : nat) (ws : list write) (j : nat) : list F :=
  fold_left (fun col w => if Nat.eqb (wcol w) j then add_at o col (wrow w) (wval w) else col) ws (zeros o nrows).

(* ---- EITSourceMat: for ielec, for triangle in getInjectionTriangles(ielec), for i<nlin: mat(i,ielec) += transmat(t,i)*coeff ---- *)
Variable TM : nat -> nat -> F.
Definition electrode : Type := list (nat * F).          (* injection triangles: (triangle index, coeff) *)
Definition eit_writes_of (size : nat) (k : nat) (e : electrode) : list write :=
  flat_map (fun tc => map (fun i => (i, k, TM (fst tc) i * snd tc)) (seq 0 size)) e.
Fixpoint eit_writes (size : nat) (k : nat) (es : list electrode) : list write :=
  match es with [] => [] | e :: es' => eit_writes_of size k e ++ eit_writes size (S k) es' end.
Definition EIT (size : nat) (es : list electrode) : list (list F) := run_writes size (length es) (eit_writes size 0 es).
Definition eit_col (size : nat) (e : electrode) : list F := run_col size (eit_writes_of size 0 e) 0.

(* ---- SurfSourceMat ---- *)
Record bmesh := mkBMesh { bm_id : nat; bm_verts : list nat; bm_tris : list nat; bm_barrier : bool }.   (* vertex indices, triangle indices, Mesh::current_barrier() *)
Record bomesh := mkBOMesh { bo_mesh : bmesh; bo_orient : Z }.
Record bbound := mkBBound { bb_inside : bool; bb_meshes : list bomesh }.
Variable ST : Type.                                   (* a triangle of the source mesh (with its geometry) *)
Variable st_v : ST -> nat * nat * nat.                (* its three vertex indices in the source mesh *)
Variable NV : nat -> nat -> nat -> list ST -> F.      (* mesh id, V1 index, source vertex, triangles of the source mesh around it *)
Variable DV : nat -> nat -> ST -> pt (F:=F).          (* mesh id, triangle1 index, source triangle *)
Variable K : F.

Definition has_vertex (j : nat) (t : ST) : bool :=
  let '(a, b, c) := st_v t in Nat.eqb a j || Nat.eqb b j || Nat.eqb c j.
Definition star (src : list ST) (j : nat) : list ST := filter (has_vertex j) src.

(* NonDiagonalBlock::N(coeff,Sbloc,mat): for vertex1 of mesh, for vertex2 of the source mesh: mat(v1,v2) += N(...)*coeff *)
Definition n_writes (m : bmesh) (nsv : nat) (src : list ST) (coeff : F) : list write :=
  flat_map (fun v1 => map (fun j => (v1, j, NV (bm_id m) v1 j (star src j) * coeff)) (seq 0 nsv)) (bm_verts m).
(* BlocksBase::D(mesh triangles, source triangles, coeff, mat): mat(t1, t2.vertex(i)) += total(i)*coeff *)
Definition d_writes (m : bmesh) (src : list ST) (coeff : F) : list write :=
  flat_map (fun t1 => flat_map (fun t2 =>
      let tot := DV (bm_id m) t1 t2 in let '(a, b, c) := st_v t2 in
      [(t1, a, px tot * coeff); (t1, b, py tot * coeff); (t1, c, pz tot * coeff)]) src) (bm_tris m).
Definition ssm_writes (cond : F) (bounds : list bbound) (nsv : nat) (src : list ST) : list write :=
  let L := fdiv o (fopp o (f1 o)) cond in
  flat_map (fun b => let factorN := if bb_inside b then K else fopp o K in
    flat_map (fun om => let coeffN := factorN * fofZ o (bo_orient om) in
       n_writes (bo_mesh om) nsv src coeffN ++
       (* after fix: no D block for a current barrier (its triangles have no row) *)
       (if bm_barrier (bo_mesh om) then [] else d_writes (bo_mesh om) src (coeffN * L))) (bb_meshes b)) bounds.
Definition SSM (size : nat) (cond : F) (bounds : list bbound) (nsv : nat) (src : list ST) : list (list F) :=
  run_writes size nsv (ssm_writes cond bounds nsv src).
End SurfEIT.
