(* EXTRACT-Z: c05 run_c05 *)
(* Executable entry point for the C05 footprint correspondence: the GENERATED loop descriptors are evaluated on the
   index data of a real geometry (dumped by the harness) and their footprints are printed region by region,
   iteration by iteration; the runner compares them with the accesses logged by the recording containers. *)
From OM Require Import Base.Lists Base.Wire Geom.ParLoops Geom.ParLoopsGeom Gen.GenParLoops.
Local Open Scope Z_scope.

Definition getTri : dec tri :=
  do i <- getZ; do a <- getZ; do b <- getZ; do c <- getZ;
  ret {| t_index := i; t_vertex := fun k => if k =? 0 then a else if k =? 1 then b else c |}.

Fixpoint lookup_adj (vs : list Z) (adjs : list (list Z)) (v : Z) : list Z :=
  match vs, adjs with
  | x :: vs', a :: adjs' => if x =? v then a else lookup_adj vs' adjs' v
  | _, _ => []
  end.

Definition getMesh : dec mesh :=
  do nv <- getN; do vs <- getZs nv; do nt <- getN; do ts <- getMany nt getTri;
  do adjs <- getMany nv (do n <- getN; getZs n);
  ret {| m_triangles := ts; m_vertices := vs;
         m_adj := fun v => map (fun i => {| t_index := i; t_vertex := fun _ => 0 |}) (lookup_adj vs adjs v) |}.

Notation reg := (region Z unit).

Definition out_region (r : nat) (x : reg) : list Z :=
  concat (map (fun ia : nat * list (nat * Z * Z * Z) =>
                 flat_map (fun a : nat * Z * Z * Z => let '(c, i, w, k) := a in [zn r; zn (fst ia); zn c; i; w; k]) (snd ia))
              (combine (seq 0 (length (r_its Z unit x))) (footprint (r_its Z unit x)))).

Definition out_regions (rs : list reg) : list Z :=
  ST_OK :: zn (length rs) :: concat (map (fun rx : nat * reg => out_region (S (fst rx)) (snd rx)) (combine (seq 0 (length rs)) rs)).

Definition addr_of (kind n : Z) : Z -> Z -> Z := if kind =? 0 then pidx else cmidx n.
Definition target_of (kind : Z) : nat := if kind =? 0 then 1%nat else 3%nat.

Definition noexn {A} : A -> option (nat * unit) := fun _ => None.

Definition regions_of (loop kind n : Z) (m1 m2 : mesh) : list reg :=
  let a := addr_of kind n in let c := target_of kind in
  let D ts1 ts2 := loop_operators_h_BlocksBase_D Z unit Z.add 0 ts1 ts2 c a (fun _ _ _ _ => 0) noexn in
  if loop =? 1 then [D (m_triangles m1) (m_triangles m2)]
  else if loop =? 2 then [D (m_triangles m2) (m_triangles m1)]
  else if loop =? 3 then
    map (fun k => loop_operators_h_DiagonalBlock_S Z unit Z.add 0 (m_triangles m1) k c a (fun _ _ => 0) noexn) (seq 0 (length (m_triangles m1)))
  else if loop =? 4 then
    map (fun t1 => loop_operators_h_NonDiagonalBlock_S Z unit Z.add 0 (m_triangles m1) t1 (m_triangles m2) c a (fun _ _ => 0) noexn) (m_triangles m1)
  else if loop =? 5 then
    map (fun k => loop_operators_h_DiagonalBlock_N Z unit Z.add 0 (m_vertices m1) k 1%nat pidx (m_adj m1) 1%nat pidx (fun _ _ => 0) noexn) (seq 0 (length (m_vertices m1)))
  else if loop =? 6 then
    map (fun k => loop_operators_h_DiagonalBlock_N Z unit Z.add 0 (m_vertices m1) k c a (m_adj m1) 2%nat pidx (fun _ _ => 0) noexn) (seq 0 (length (m_vertices m1)))
  else if loop =? 7 then
    map (fun v1 => loop_operators_h_NonDiagonalBlock_N Z unit Z.add 0 (m_vertices m1) v1 (m_vertices m2) 1%nat pidx (m_adj m1) (m_adj m2) 1%nat pidx (fun _ _ => 0) noexn) (m_vertices m1)
  else if loop =? 8 then
    map (fun v1 => loop_operators_h_NonDiagonalBlock_N Z unit Z.add 0 (m_vertices m1) v1 (m_vertices m2) c a (m_adj m1) (m_adj m2) 2%nat pidx (fun _ _ => 0) noexn) (m_vertices m1)
  else if loop =? 9 then
    map (fun k => loop_assembleHeadMat_cpp_deflate Z unit Z.add 0 (m_vertices m1) k 1%nat pidx (fun _ _ => 0) noexn) (seq 0 (length (m_vertices m1)))
  (* the three loops of operators.cpp (hook H1): rows offsetI = 3 of a 6-row Matrix; Vector targets *)
  else if loop =? 11 then
    [loop_operators_cpp_operatorFerguson Z unit Z.add 0 (m_vertices m1) 1%nat 3 n (fun _ _ => 0) (fun _ _ => 0) (fun _ _ => 0) noexn]
  else if loop =? 12 then
    [loop_operators_cpp_operatorDipolePotDer Z unit Z.add 0 (m_triangles m1) 1%nat (fun _ _ _ => 0) noexn]
  else if loop =? 13 then
    [loop_operators_cpp_operatorDipolePot Z unit Z.add 0 (m_triangles m1) 1%nat (fun _ _ => 0) noexn]
  else [].

Definition run_c05 (w : wire) : wire :=
  run_dec (do loop <- getZ; do kind <- getZ; do n <- getZ; do m1 <- getMesh; do m2 <- getMesh; ret (loop, kind, n, m1, m2)) w
    (fun x => let '(loop, kind, n, m1, m2) := x in out_regions (regions_of loop kind n m1 m2)).
