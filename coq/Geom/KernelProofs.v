(* Facts about the kernels of Geom/Kernels.v at the real instance (Base/OpsR.v): the three double-layer
   components sum to the solid angle, symmetries of the solid angle, positivity of the log argument of
   integral_simplified_green off the edge line. *)
From Coq Require Import Reals Lra Lia ZArith QArith.
From OM Require Import Base.Ops Base.OpsR Base.Vec3 Geom.Kernels.
Local Open Scope R_scope.

Notation V3 := (vec3 R).

(* ---- the degeneracy test, used only through these three facts ------------------------------------------ *)
Lemma thr_pos : 0 < thr_1e10 OpsR.
Proof. unfold thr_1e10, fQ; cbn. lra. Qed.

Lemma coplanar_false_nonzero d y1 y2 y3 : 0 <= y1 -> 0 <= y2 -> 0 <= y3 ->
  coplanar_test OpsR d y1 y2 y3 = false -> d <> 0.
Proof.
  intros H1 H2 H3 H. unfold coplanar_test in H. cbn [fleb fabs fmul OpsR] in H. apply Rleb_false in H.
  pose proof thr_pos as Ht. intros ->. rewrite Rabs_R0 in H.
  assert (0 <= y1 * y2 * y3) by (apply Rmult_le_pos; [apply Rmult_le_pos|]; assumption).
  assert (0 <= thr_1e10 OpsR * (y1 * y2 * y3)) by (apply Rmult_le_pos; lra). lra.
Qed.

Lemma coplanar_cyclic d y1 y2 y3 : coplanar_test OpsR d y1 y2 y3 = coplanar_test OpsR d y2 y3 y1.
Proof. unfold coplanar_test. cbn [fleb fabs fmul OpsR]. f_equal. ring. Qed.

Lemma coplanar_swap d y1 y2 y3 : coplanar_test OpsR (- d) y1 y3 y2 = coplanar_test OpsR d y1 y2 y3.
Proof. unfold coplanar_test. cbn [fleb fabs fmul OpsR]. rewrite Rabs_Ropp. f_equal. ring. Qed.

Lemma norm_nonneg (v : V3) : 0 <= norm OpsR v.
Proof. unfold norm. cbn [fsqrt OpsR]. apply sqrt_pos. Qed.

(* ---- D3 components sum to the solid angle ---------------------------------------------------------------- *)
Lemma norm2_zero (v : V3) : norm2 OpsR v = 0 -> v = mkV 0 0 0.
Proof.
  destruct v as [a b c]. unfold norm2, sqr; cbn. intros H.
  assert (a = 0) by nra. assert (b = 0) by nra. assert (c = 0) by nra. subst. reflexivity.
Qed.

Lemma det_as_dot_normal (Y1 Y2 Y3 : V3) :
  det3 OpsR Y1 Y2 Y3 = dot OpsR Y1 (vadd OpsR (vadd OpsR (cross OpsR Y2 Y3) (cross OpsR Y3 Y1)) (cross OpsR Y1 Y2)).
Proof. unfold det3, dot, cross, vadd; cbn. ring. Qed.

Lemma d3_sum_alg (x v0 v1 v2 S : V3) (omega d : R) :
  let Y1 := vsub OpsR v0 x in let Y2 := vsub OpsR v1 x in let Y3 := vsub OpsR v2 x in
  let Z1 := cross OpsR Y2 Y3 in let Z2 := cross OpsR Y3 Y1 in let Z3 := cross OpsR Y1 Y2 in
  let N := vadd OpsR (vadd OpsR Z1 Z2) Z3 in
  let D1 := vsub OpsR v1 v0 in let D2 := vsub OpsR v2 v1 in let D3 := vsub OpsR v0 v2 in
  let r := vdivs OpsR (vadd OpsR (vscale OpsR omega (mkV (dot OpsR Z1 N) (dot OpsR Z2 N) (dot OpsR Z3 N)))
                                 (vscale OpsR d (mkV (dot OpsR D2 S) (dot OpsR D3 S) (dot OpsR D1 S)))) (norm2 OpsR N) in
  norm2 OpsR N <> 0 -> vx r + vy r + vz r = omega.
Proof.
  intros Y1 Y2 Y3 Z1 Z2 Z3 N D1 D2 D3 r HN.
  set (n2 := norm2 OpsR N) in *.
  assert (Hs : dot OpsR Z1 N + dot OpsR Z2 N + dot OpsR Z3 N = n2).
  { subst n2 N. unfold norm2, sqr, dot, vadd; cbn. ring. }
  assert (Hd : dot OpsR D2 S + dot OpsR D3 S + dot OpsR D1 S = 0).
  { subst D1 D2 D3. unfold dot, vsub; cbn. ring. }
  subst r. unfold vdivs, vadd, vscale. cbn [vx vy vz fdiv fadd fmul OpsR].
  replace ((omega * dot OpsR Z1 N + d * dot OpsR D2 S) / n2 + (omega * dot OpsR Z2 N + d * dot OpsR D3 S) / n2 +
           (omega * dot OpsR Z3 N + d * dot OpsR D1 S) / n2)
    with ((omega * (dot OpsR Z1 N + dot OpsR Z2 N + dot OpsR Z3 N) + d * (dot OpsR D2 S + dot OpsR D3 S + dot OpsR D1 S)) / n2)
    by (unfold Rdiv; ring).
  rewrite Hs, Hd. field. exact HN.
Qed.

Theorem D3_components_sum_to_solid_angle_lemma (v0 v1 v2 x : V3) :
  let r := analyticD3_f OpsR (analyticD3_init OpsR v0 v1 v2) x in
  vx r + vy r + vz r = solid_angle OpsR x v0 v1 v2.
Proof.
  unfold analyticD3_f, solid_angle. cbn [D_v0 D_v1 D_v2 D_D1 D_D2 D_D3 D_U1 D_U2 D_U3 analyticD3_init]. cbv zeta.
  set (Y1 := vsub OpsR v0 x). set (Y2 := vsub OpsR v1 x). set (Y3 := vsub OpsR v2 x).
  destruct (coplanar_test OpsR (det3 OpsR Y1 Y2 Y3) (norm OpsR Y1) (norm OpsR Y2) (norm OpsR Y3)) eqn:E.
  - cbn. ring.
  - apply coplanar_false_nonzero in E; try apply norm_nonneg.
    apply d3_sum_alg. fold Y1 Y2 Y3. intros HN. apply E.
    rewrite det_as_dot_normal. apply norm2_zero in HN. rewrite HN. unfold dot; cbn. ring.
Qed.

(* ---- symmetries of the solid angle ---------------------------------------------------------------------- *)
Lemma det3_cyclic (a b c : V3) : det3 OpsR a b c = det3 OpsR b c a.
Proof. unfold det3, dot, cross; cbn. ring. Qed.
Lemma det3_swap (a b c : V3) : det3 OpsR a c b = - det3 OpsR a b c.
Proof. unfold det3, dot, cross; cbn. ring. Qed.
Lemma den_cyclic (a b c : V3) y1 y2 y3 : solid_angle_den OpsR a b c y1 y2 y3 = solid_angle_den OpsR b c a y2 y3 y1.
Proof. unfold solid_angle_den, dot; cbn. ring. Qed.
Lemma den_swap (a b c : V3) y1 y2 y3 : solid_angle_den OpsR a c b y1 y3 y2 = solid_angle_den OpsR a b c y1 y2 y3.
Proof. unfold solid_angle_den, dot; cbn. ring. Qed.

Theorem solid_angle_cyclic_lemma (x v1 v2 v3 : V3) : solid_angle OpsR x v1 v2 v3 = solid_angle OpsR x v2 v3 v1.
Proof.
  unfold solid_angle. cbv zeta.
  rewrite (det3_cyclic (vsub OpsR v1 x)), (den_cyclic (vsub OpsR v1 x)), coplanar_cyclic. reflexivity.
Qed.

Lemma Ratan2_opp y x : y <> 0 -> Ratan2 (- y) x = - Ratan2 y x.
Proof.
  intros Hy. unfold Ratan2.
  replace (- y / x) with (- (y / x)) by (unfold Rdiv; ring). rewrite atan_opp.
  destruct (Rlt_dec 0 x); [reflexivity|].
  destruct (Rlt_dec x 0).
  - destruct (Rle_dec 0 (- y)), (Rle_dec 0 y); try lra.
  - destruct (Rlt_dec 0 (- y)), (Rlt_dec 0 y), (Rlt_dec (- y) 0), (Rlt_dec y 0); lra.
Qed.

Theorem solid_angle_swap_neg_lemma (x v1 v2 v3 : V3) : solid_angle OpsR x v1 v3 v2 = - solid_angle OpsR x v1 v2 v3.
Proof.
  unfold solid_angle. cbv zeta.
  rewrite (det3_swap (vsub OpsR v1 x)), (den_swap (vsub OpsR v1 x)), coplanar_swap.
  destruct (coplanar_test OpsR _ _ _ _) eqn:E.
  - cbn. ring.
  - apply coplanar_false_nonzero in E; try apply norm_nonneg.
    cbn [fmul fatan2 f0 OpsR]. rewrite Ratan2_opp by exact E. ring.
Qed.

(* ---- the log argument of integral_simplified_green ------------------------------------------------------ *)
Lemma lagrange (a b : V3) : norm2 OpsR a * norm2 OpsR b - dot OpsR a b * dot OpsR a b = norm2 OpsR (cross OpsR a b).
Proof. unfold norm2, sqr, dot, cross; cbn. ring. Qed.

Lemma norm2_nonneg' (v : V3) : 0 <= norm2 OpsR v.
Proof. destruct v as [x y z]. unfold norm2, sqr; cbn. nra. Qed.

(* strict Cauchy-Schwarz: a, b not parallel -> a.b < |a||b| *)
Lemma cs_strict (a b : V3) : 0 < norm2 OpsR (cross OpsR a b) -> dot OpsR a b < norm OpsR a * norm OpsR b.
Proof.
  intros H. rewrite <- lagrange in H.
  unfold norm. cbn [fsqrt OpsR]. rewrite <- sqrt_mult_alt by apply norm2_nonneg'.
  set (P := norm2 OpsR a * norm2 OpsR b) in *. set (s := dot OpsR a b) in *.
  assert (HP : 0 <= s * s) by nra.
  destruct (Rle_dec s 0) as [Hs|Hs].
  - apply Rle_lt_trans with 0; auto. apply sqrt_lt_R0. lra.
  - replace s with (sqrt (s * s)) at 1 by (apply sqrt_square; lra).
    apply sqrt_lt_1_alt. lra.
Qed.

(* for x off the line through p0 and p1 both the numerator and the denominator are positive *)
Theorem green_log_argument_positive_lemma (p0 p1 x : V3) :
  let p0x := vsub OpsR p0 x in let p1x := vsub OpsR p1 x in let p1p0 := vsub OpsR p1 p0 in
  0 < norm2 OpsR (cross OpsR p0x p1p0) ->
  0 < green_arg OpsR p0x (norm OpsR p0x) p1x (norm OpsR p1x) p1p0 (norm OpsR p1p0).
Proof.
  intros p0x p1x p1p0 H. unfold green_arg. cbn [fdiv fsub fmul OpsR].
  assert (Hc : cross OpsR p1x p1p0 = cross OpsR p0x p1p0).
  { subst p0x p1x p1p0. unfold cross, vsub; cbn. f_equal; ring. }
  apply Rdiv_lt_0_compat.
  - pose proof (cs_strict p0x p1p0 H). lra.
  - rewrite <- Hc in H. pose proof (cs_strict p1x p1p0 H). lra.
Qed.

(* hence off the line, and when the quotient is in the normal double range, the log branch is the one taken;
   the fallback |ln(|p1x|/|p0x|)| is only taken on the edge line or outside [DBL_MIN,DBL_MAX] *)
Theorem green_log_branch_lemma (p0 p1 x : V3) :
  let p0x := vsub OpsR p0 x in let p1x := vsub OpsR p1 x in let p1p0 := vsub OpsR p1 p0 in
  let arg := green_arg OpsR p0x (norm OpsR p0x) p1x (norm OpsR p1x) p1p0 (norm OpsR p1p0) in
  0 < norm2 OpsR (cross OpsR p0x p1p0) -> fisnormal OpsR arg = true ->
  integral_simplified_green OpsR p0x (norm OpsR p0x) p1x (norm OpsR p1x) p1p0 (norm OpsR p1p0) = ln arg.
Proof.
  intros p0x p1x p1p0 arg H Hn. unfold integral_simplified_green. fold arg. rewrite Hn.
  pose proof (green_log_argument_positive_lemma p0 p1 x H) as Hp. fold p0x p1x p1p0 arg in Hp.
  cbn [fltb f0 fln OpsR andb]. apply Rltb_true in Hp. rewrite Hp. reflexivity.
Qed.

Theorem green_fallback_on_line_lemma (p0 p1 x : V3) :
  let p0x := vsub OpsR p0 x in let p1x := vsub OpsR p1 x in let p1p0 := vsub OpsR p1 p0 in
  let arg := green_arg OpsR p0x (norm OpsR p0x) p1x (norm OpsR p1x) p1p0 (norm OpsR p1p0) in
  arg <= 0 -> cross OpsR p0x p1p0 = mkV 0 0 0.
Proof.
  intros p0x p1x p1p0 arg Ha. apply norm2_zero.
  pose proof (norm2_nonneg' (cross OpsR p0x p1p0)) as Hn.
  destruct (Req_dec (norm2 OpsR (cross OpsR p0x p1p0)) 0) as [E|E]; auto.
  assert (Hp : 0 < norm2 OpsR (cross OpsR p0x p1p0)) by lra.
  pose proof (green_log_argument_positive_lemma p0 p1 x Hp) as Hpos. fold p0x p1x p1p0 arg in Hpos. lra.
Qed.

(* the run-time-cheap constants of fisnormal (Base/Vec3.v) are the same reals as DBL_MIN = 2^-1022, DBL_MAX = (2^53-1) 2^971 *)
Lemma fpow2_R p : fpow2 OpsR p = IZR (2 ^ Zpos p).
Proof.
  induction p as [p IH|p IH|]; cbn [fpow2 fmul fofZ OpsR].
  - rewrite IH. replace (Z.pos p~1) with (Z.pos p + Z.pos p + 1)%Z by lia.
    rewrite !Z.pow_add_r, Z.pow_1_r by lia. rewrite !mult_IZR. ring.
  - rewrite IH. replace (Z.pos p~0) with (Z.pos p + Z.pos p)%Z by lia.
    rewrite Z.pow_add_r by lia. rewrite mult_IZR. ring.
  - reflexivity.
Qed.
Lemma dbl_min_fast_R : dbl_min_fast OpsR = dbl_min OpsR.
Proof. unfold dbl_min_fast, dbl_min. rewrite fpow2_R. reflexivity. Qed.
Lemma dbl_max_fast_R : dbl_max_fast OpsR = dbl_max OpsR.
Proof. unfold dbl_max_fast, dbl_max. rewrite fpow2_R. cbn [fmul fofZ OpsR]. rewrite <- mult_IZR. reflexivity. Qed.
