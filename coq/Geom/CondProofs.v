From OM Require Import Base.Lists Geom.CondFile.
From Coq Require Import Permutation.

Section CondP.
Variable V : Type.
Notation cline := (cline V).

Lemma lookup_app n (t u : list (nat * V)) : lookup n (t ++ u) = match lookup n t with Some v => Some v | None => lookup n u end.
Proof. induction t as [|[k v] t IH]; simpl; auto. destruct (Nat.eqb k n); auto. Qed.

Lemma lookup_define n (t : list (nat * V)) k (v : V) : lookup n (define t k v) =
  match lookup n t with Some x => Some x | None => if Nat.eqb k n then Some v else None end.
Proof.
  unfold define. destruct (lookup k t) eqn:E.
  - destruct (lookup n t) eqn:E2; auto. destruct (Nat.eqb_spec k n); auto. subst. congruence.
  - rewrite lookup_app. simpl. destruct (lookup n t); auto.
Qed.

(* the table built by the reader answers with the first entry line of that name, whatever precedes it *)
Lemma lookup_fold n : forall (ls : list cline) t,
  lookup n (fold_left read_line ls t) = match lookup n t with Some x => Some x | None => first_entry n ls end.
Proof.
  induction ls as [|l ls IH]; intros t; simpl.
  - destruct (lookup n t); auto.
  - rewrite IH. destruct l as [|k v]; simpl; auto.
    rewrite lookup_define. destruct (lookup n t); auto. destruct (Nat.eqb k n); auto.
Qed.

Lemma read_cond_lookup (ls : list cline) t n : read_cond true ls = Some t -> lookup n t = first_entry n ls.
Proof. unfold read_cond. intros H. inversion H; subst. rewrite lookup_fold. reflexivity. Qed.

Definition names (ls : list cline) : list nat := flat_map (fun l => match l with CComment => [] | CEntry k _ => [k] end) ls.

(* with each name defined once, the answer does not depend on the order of the lines (comments anywhere) *)
Lemma first_entry_perm n (ls ls' : list cline) : Permutation ls ls' -> NoDup (names ls) -> first_entry n ls = first_entry n ls'.
Proof.
  induction 1; intros ND; simpl; auto.
  - destruct x as [|k v]; simpl in *; auto. inversion ND; subst. rewrite IHPermutation; auto.
  - destruct x as [|k v], y as [|k' v']; simpl in *; auto.
    destruct (Nat.eqb_spec k n), (Nat.eqb_spec k' n); auto. subst. inversion ND; subst. exfalso. apply H1. left; auto.
  - rewrite IHPermutation1; auto. apply IHPermutation2.
    assert (P : Permutation (names l) (names l')).
    { clear - H. induction H; simpl; auto.
      - apply Permutation_app_head; auto.
      - destruct x, y; simpl; auto. apply perm_swap.
      - eapply perm_trans; eauto. }
    eapply Permutation_NoDup; eauto.
Qed.

Lemma first_entry_no_comments n (ls : list cline) :
  first_entry n (filter (fun l => match l with CComment => false | _ => true end) ls) = first_entry n ls.
Proof. induction ls as [|[|k v] ls IH]; simpl; auto. rewrite IH. reflexivity. Qed.

Lemma attach_spec t : forall doms vs, attach t doms = Some vs <-> map (fun d => lookup d t) doms = map (@Some V) vs.
Proof.
  induction doms as [|d r IH]; intros vs; simpl.
  - split; intros H; [inversion H; auto|]. destruct vs; [auto|discriminate].
  - destruct (lookup d t) eqn:E.
    + destruct (attach t r) eqn:E2.
      * split; intros H.
        -- inversion H; subst. simpl. f_equal. apply IH. auto.
        -- destruct vs as [|x vs]; [discriminate|]. simpl in H. inversion H; subst. f_equal. f_equal.
           apply IH in H2. congruence.
      * split; [discriminate|]. intros H. destruct vs as [|x vs]; [discriminate|]. simpl in H. inversion H.
        apply IH in H2. congruence.
    + split; [discriminate|]. intros H. destruct vs; simpl in H; inversion H.
Qed.

(* cond_attached_by_name_order_free: each domain receives the value written next to its own name, for any order of
   the lines, any comments, and any order of the domains *)
Lemma load_cond_spec (ls : list cline) doms vs :
  load_cond true ls doms = Some vs <-> map (fun d => first_entry d ls) doms = map (@Some V) vs.
Proof.
  unfold load_cond, read_cond. rewrite attach_spec.
  assert (E : map (fun d => lookup d (fold_left read_line ls [])) doms = map (fun d => first_entry d ls) doms).
  { apply map_ext. intros d. rewrite lookup_fold. reflexivity. }
  rewrite E. reflexivity.
Qed.

Lemma load_cond_order_free (ls ls' : list cline) doms : Permutation ls ls' -> NoDup (names ls) ->
  load_cond true ls' doms = load_cond true ls doms.
Proof.
  intros P ND. destruct (load_cond true ls doms) as [vs|] eqn:E.
  - apply load_cond_spec. apply load_cond_spec in E. rewrite <- E. apply map_ext. intros d. symmetry. apply first_entry_perm; auto.
  - destruct (load_cond true ls' doms) as [vs|] eqn:E'; auto.
    apply load_cond_spec in E'. assert (load_cond true ls doms = Some vs); [|congruence].
    apply load_cond_spec. rewrite <- E'. apply map_ext. intros d. apply first_entry_perm; auto.
Qed.

Lemma load_cond_missing (ls : list cline) doms d : In d doms -> first_entry d ls = None -> load_cond true ls doms = None.
Proof.
  intros Hd Hn. destruct (load_cond true ls doms) as [vs|] eqn:E; auto. apply load_cond_spec in E.
  exfalso. revert vs E. induction doms as [|x r IH]; intros vs E; [inversion Hd|].
  destruct vs as [|v vs]; [discriminate|]. simpl in E. inversion E. destruct Hd as [->|Hd]; [congruence|]. eapply IH; eauto.
Qed.
End CondP.
