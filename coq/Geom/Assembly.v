(* C10 -- model of the head-matrix assembly as the code performs it.
   Sources: OpenMEEG/src/assembleHeadMat.cpp (Details::HeadMatrix, Details::deflate),
            OpenMEEG/include/operators.h (HeadMatrixBlocks::set_blocks, DiagonalBlock, NonDiagonalBlock,
            BlocksBase::D, BlocksBase::N, SymBloc / Bloc offset wrappers).

   Input: the *indexed geometry* = what Geometry holds after load()/finalize() (C11's bookkeeping result):
   meshes with their vertex ids, triangles (vertex triples + unknown index), flags, the communicating
   mesh pairs with orientation and coefficients, the independent parts, nb_parameters and
   nb_current_barrier_triangles.  Vertex ids / triangle ids are positions in Geometry::vertices() /
   a running count over the meshes; unknown indices are the values of Vertex::index() / Triangle::index()
   (unsigned(-1) = 4294967295 means "no unknown").

   Kernels are abstract (Section variables): Sk t1 t2 = integrate(analyticS(t1),t2),
   Dk t1 t2 i = (integrate(analyticD3(t2),t1))(i); triangle areas and vertex positions are data.
   No proofs in this file. *)
From Coq Require Import List NArith ZArith Bool FMapPositive.
From OM Require Import Base.Ops.
Import ListNotations.
Local Open Scope N_scope.

Record tri := mkTri { tid : N; tv0 : N; tv1 : N; tv2 : N; tix : N }.
Record mesh := mkMesh { mverts : list N; mtris : list tri; mouter : bool; mbarrier : bool; misolated : bool }.
Record pair (F : Type) := mkPair { pm1 : nat; pm2 : nat; porient : Z; psig : F; psiginv : F; pind : F }.
Arguments mkPair {F}. Arguments pm1 {F}. Arguments pm2 {F}. Arguments porient {F}. Arguments psig {F}. Arguments psiginv {F}. Arguments pind {F}.
Record igeom (F : Type) := mkGeom {
  gvix : list N;               (* Vertex::index() by vertex id *)
  gmeshes : list mesh;
  gpairs : list (pair F);      (* Geometry::communicating_mesh_pairs(), in order *)
  gparts : list (list nat);    (* Geometry::isolated_parts(): mesh numbers *)
  gnparams : N;                (* nb_parameters() *)
  gnbarrier : N }.             (* nb_current_barrier_triangles() *)
Arguments mkGeom {F}. Arguments gvix {F}. Arguments gmeshes {F}. Arguments gpairs {F}. Arguments gparts {F}.
Arguments gnparams {F}. Arguments gnbarrier {F}.

Definition NOIDX : N := 4294967295.
Definition empty_mesh : mesh := mkMesh [] [] false false false.

(* ---- two-level finite map (row key, then column key); no arithmetic on keys ---- *)
Definition kp (i : N) : positive := N.succ_pos i.
Definition store (F : Type) := PositiveMap.t (PositiveMap.t F).
Definition sempty {F} : store F := PositiveMap.empty _.
Definition rfind {F} (M : store F) (a b : N) : option F :=
  match PositiveMap.find (kp b) M with Some r => PositiveMap.find (kp a) r | None => None end.
Definition rput {F} (M : store F) (a b : N) (x : F) : store F :=
  let r := match PositiveMap.find (kp b) M with Some r => r | None => PositiveMap.empty _ end in
  PositiveMap.add (kp b) (PositiveMap.add (kp a) x r) M.
Definition ord (i j : N) : N * N := if i <=? j then (i, j) else (j, i).

Section Asm.
Context {F : Type} (o : Ops F).
Variable K : F.                       (* constants.h: 1/(4 Pi) *)
Variable pos : N -> F * F * F.        (* vertex coordinates by vertex id *)
Variable area : N -> F.               (* Triangle::area() by triangle id *)
Variable Sk : N -> N -> F.
Variable Dk : N -> N -> nat -> F.

Definition rget (M : store F) (a b : N) : F := match rfind M a b with Some x => x | None => f0 o end.

(* SymMatrix::operator()(i,j): one cell per unordered pair (packed upper storage) *)
Definition mget (M : store F) (i j : N) : F := let '(a, b) := ord i j in rget M a b.
Definition mset (M : store F) (i j : N) (x : F) : store F := let '(a, b) := ord i j in rput M a b x.
Definition madd (M : store F) (i j : N) (x : F) : store F := mset M i j (fadd o (mget M i j) x).

(* SymBloc(offset,sz) / Bloc(i0,j0,n,m): temporary S blocks addressed with global indices *)
Definition sbget (off : N) (B : store F) (i j : N) : F := mget B (i - off) (j - off).
Definition sbset (off : N) (B : store F) (i j : N) (x : F) : store F := mset B (i - off) (j - off) x.
Definition bget (i0 j0 : N) (B : store F) (i j : N) : F := rget B (i - i0) (j - j0).
Definition bset (i0 j0 : N) (B : store F) (i j : N) (x : F) : store F := rput B (i - i0) (j - j0) x.

Definition vix (g : igeom F) (v : N) : N := nth (N.to_nat v) (gvix g) NOIDX.
Definition gmesh (g : igeom F) (k : nat) : mesh := nth k (gmeshes g) empty_mesh.

(* ---- vectors ---- *)
Definition vsub (a b : F * F * F) : F * F * F :=
  let '(ax, ay, az) := a in let '(bx, b_y, bz) := b in (fsub o ax bx, fsub o ay b_y, fsub o az bz).
Definition dot (a b : F * F * F) : F :=
  let '(ax, ay, az) := a in let '(bx, b_y, bz) := b in
  fadd o (fadd o (fmul o ax bx) (fmul o ay b_y)) (fmul o az bz).

(* ---- triangle / vertex incidence (Mesh::triangles(V), Triangle::edge(V)) ---- *)
Definition has_v (t : tri) (v : N) : bool := (v =? tv0 t) || (v =? tv1 t) || (v =? tv2 t).
Definition tris_of (m : mesh) (v : N) : list tri := filter (fun t => has_v t v) (mtris m).
Definition edge_of (t : tri) (v : N) : N * N :=
  if v =? tv0 t then (tv1 t, tv2 t) else if v =? tv1 t then (tv2 t, tv0 t) else (tv0 t, tv1 t).
Definition CB (t : tri) (v : N) : F * F * F := let '(a, b) := edge_of t v in vsub (pos a) (pos b).
Definition tvi (t : tri) (i : nat) : N := match i with O => tv0 t | S O => tv1 t | _ => tv2 t end.

(* ---- BlocksBase::N(factor,V1,V2,m1,m2,matrix)  (operators.h:131-146) ---- *)
Definition Nterm (factor : F) (Sread : N -> N -> F) (t1 : tri) (v1 : N) (t2 : tri) (v2 : N) : F :=
  fdiv o (fmul o (fmul o factor (dot (CB t1 v1) (CB t2 v2))) (Sread (tix t1) (tix t2)))
         (fmul o (area (tid t1)) (area (tid t2))).
Definition Nval (factor : F) (Sread : N -> N -> F) (m1 m2 : mesh) (v1 v2 : N) : F :=
  fold_left (fun acc t1 =>
    fold_left (fun acc t2 => fsub o acc (Nterm factor Sread t1 v1 t2 v2)) (tris_of m2 v2) acc)
    (tris_of m1 v1) (f0 o).
Definition half : F := fdiv o (f1 o) (fofZ o 2).
Definition quarter : F := fdiv o (f1 o) (fofZ o 4).
Definition Nfac (v1 v2 : N) : F := if v1 =? v2 then half else quarter.

(* ---- S blocks: generic in the container written ---- *)
Section SBlocks.
Context {St : Type} (put : St -> N -> N -> F -> St).
(* DiagonalBlock::S : tit2 runs from tit1 to the end *)
Fixpoint S_diag (B : St) (coeff : F) (ts : list tri) : St :=
  match ts with
  | [] => B
  | t1 :: rest =>
    S_diag (fold_left (fun B t2 => put B (tix t1) (tix t2) (fmul o (Sk (tid t1) (tid t2)) coeff)) (t1 :: rest) B)
           coeff rest
  end.
(* NonDiagonalBlock::S *)
Definition S_off (B : St) (coeff : F) (ts1 ts2 : list tri) : St :=
  fold_left (fun B t1 =>
    fold_left (fun B t2 => put B (tix t1) (tix t2) (fmul o (Sk (tid t1) (tid t2)) coeff)) ts2 B) ts1 B.
End SBlocks.

(* ---- N blocks ---- *)
Section NBlocks.
Variable g : igeom F.
(* DiagonalBlock::N(coeff,S,matrix): vit2 runs from vit1 to the end, factor 0.25 *)
Fixpoint N_diag (M : store F) (coeff : F) (Sread : N -> N -> F) (m : mesh) (vs : list N) : store F :=
  match vs with
  | [] => M
  | a :: rest =>
    N_diag (fold_left (fun M b => madd M (vix g a) (vix g b) (fmul o (Nval quarter Sread m m a b) coeff)) (a :: rest) M)
           coeff Sread m rest
  end.
(* NonDiagonalBlock::N(coeff,S,matrix): all pairs, factor 0.5 for a shared vertex *)
Definition N_off (M : store F) (coeff : F) (Sread : N -> N -> F) (m1 m2 : mesh) : store F :=
  fold_left (fun M a =>
    fold_left (fun M b => madd M (vix g a) (vix g b) (fmul o (Nval (Nfac a b) Sread m1 m2 a b) coeff)) (mverts m2) M)
    (mverts m1) M.
(* BlocksBase::D(triangles1,triangles2,coeff,mat) *)
Definition D_block (M : store F) (coeff : F) (ts1 ts2 : list tri) : store F :=
  fold_left (fun M t1 =>
    fold_left (fun M t2 =>
      fold_left (fun M i => madd M (tix t1) (vix g (tvi t2 i)) (fmul o (Dk (tid t1) (tid t2) i) coeff)) [0%nat; 1%nat; 2%nat] M)
      ts2 M) ts1 M.

Definition front_ix (m : mesh) : N := match mtris m with t :: _ => tix t | [] => 0 end.
Definition ntris (m : mesh) : N := N.of_nat (length (mtris m)).

(* HeadMatrixBlocks<DiagonalBlock>::set_blocks *)
Definition diag_block (M : store F) (cS cN cD : F) (m : mesh) : store F :=
  let M1 := if mbarrier m then M else S_diag mset M cS (mtris m) in
  let Scoeff := if mbarrier m then f0 o else cS in
  let M2 := if feqb o Scoeff (f0 o)
            then let off := front_ix m in
                 let B := S_diag (sbset off) sempty (f1 o) (mtris m) in
                 N_diag M1 cN (sbget off B) m (mverts m)
            else N_diag M1 (fdiv o cN Scoeff) (mget M1) m (mverts m) in
  if mbarrier m then M2 else D_block M2 cD (mtris m) (mtris m).
  (* set_Dstar_block of a DiagonalBlock is empty *)

(* Mesh::operator!= compares the triangle vectors (vertex identities) *)
Definition tri_eqb (a b : tri) : bool := (tv0 a =? tv0 b) && (tv1 a =? tv1 b) && (tv2 a =? tv2 b).
Fixpoint tris_eqb (l1 l2 : list tri) : bool :=
  match l1, l2 with
  | [], [] => true
  | a :: r1, b :: r2 => tri_eqb a b && tris_eqb r1 r2
  | _, _ => false
  end.

(* HeadMatrixBlocks<NonDiagonalBlock>::set_blocks *)
Definition nondiag_block (M : store F) (cS cN cD : F) (m1 m2 : mesh) : store F :=
  let both := negb (mbarrier m1) && negb (mbarrier m2) in
  let M1 := if both then S_off mset M cS (mtris m1) (mtris m2) else M in
  let Scoeff := if both then cS else f0 o in
  let M2 := if feqb o Scoeff (f0 o)
            then let i0 := front_ix m1 in let j0 := front_ix m2 in
                 let B := S_off (bset i0 j0) sempty (f1 o) (mtris m1) (mtris m2) in
                 N_off M1 cN (bget i0 j0 B) m1 m2
            else N_off M1 (fdiv o cN Scoeff) (mget M1) m1 m2 in
  let M3 := if mbarrier m1 then M2 else D_block M2 cD (mtris m1) (mtris m2) in
  if negb (tris_eqb (mtris m1) (mtris m2)) && negb (mbarrier m2)
  then D_block M3 cD (mtris m2) (mtris m1) else M3.

(* Details::HeadMatrix: loop over the communicating mesh pairs *)
Definition pair_step (M : store F) (p : pair F) : store F :=
  let factor := fmul o (fofZ o (porient p)) K in
  let cS := fmul o factor (psiginv p) in
  let cN := fmul o factor (psig p) in
  let cD := fmul o (fopp o factor) (pind p) in
  if Nat.eqb (pm1 p) (pm2 p) then diag_block M cS cN cD (gmesh g (pm1 p))
  else nondiag_block M cS cN cD (gmesh g (pm1 p)) (gmesh g (pm2 p)).
Definition assemble_pairs : store F := fold_left pair_step (gpairs g) sempty.

(* ---- Details::deflate ---- *)
Definition part_scan (part : list nat) : N * N :=     (* (nb_vertices, i_first) *)
  fold_left (fun '(nb, ifirst) k =>
    let m := gmesh g k in
    if mouter m then (nb + N.of_nat (length (mverts m)),
                      if ifirst =? 0 then vix g (hd 0 (mverts m)) else ifirst)
    else (nb, ifirst)) part (0, 0).
Fixpoint deflate_mesh (M : store F) (coef : F) (vs : list N) : store F :=
  match vs with
  | [] => M
  | a :: rest => deflate_mesh (fold_left (fun M b => madd M (vix g a) (vix g b) coef) (a :: rest) M) coef rest
  end.
Definition deflate_part (M : store F) (part : list nat) : store F :=
  let '(nb, ifirst) := part_scan part in
  let coef := fdiv o (mget M ifirst ifirst) (fofZ o (Z.of_N nb)) in
  fold_left (fun M k => let m := gmesh g k in if mouter m then deflate_mesh M coef (mverts m) else M) part M.
Definition deflate (M : store F) : store F := fold_left deflate_part (gparts g) M.

Definition headmat : store F := deflate assemble_pairs.
Definition hm_dim : N := gnparams g - gnbarrier g.

(* om_assert(i<nlin()) of SymMatrix::operator(): every cell that was written must be inside *)
Definition store_in_range (M : store F) (n : N) : bool :=
  forallb (fun kr => Pos.pred_N (fst kr) <? n) (PositiveMap.elements M).
(* the temporary S blocks are addressed with global indices minus an offset *)
Definition sbloc_ok (m : mesh) : bool :=
  forallb (fun t => (front_ix m <=? tix t) && (tix t <? front_ix m + ntris m)) (mtris m).
Definition blocs_ok : bool :=
  forallb (fun p =>
    let m1 := gmesh g (pm1 p) in let m2 := gmesh g (pm2 p) in
    if Nat.eqb (pm1 p) (pm2 p) then negb (mbarrier m1) || sbloc_ok m1
    else (negb (mbarrier m1) && negb (mbarrier m2)) || (sbloc_ok m1 && sbloc_ok m2)) (gpairs g).
Definition headmat_ok : bool := blocs_ok && store_in_range headmat hm_dim.

(* the packed upper triangle, column by column: entries (i,j), i<=j<n *)
Definition dump (M : store F) (n : N) : list F :=
  flat_map (fun j => map (fun i => mget M (N.of_nat i) (N.of_nat j)) (seq 0 (S j))) (seq 0 (N.to_nat n)).
End NBlocks.
End Asm.
