(* The few 3-vector operations the analytic sphere oracle needs, generic over the numeric record (Base/Ops.v).
   Local to C01 (a shared Vec3.v is being written by another builder; nothing here depends on it). *)
From Coq Require Import ZArith List.
From OM Require Import Base.Ops.
Import ListNotations.

Section SphereVec.
  Context {F : Type} (o : Ops F).

  Record v3 := V3 { vx : F; vy : F; vz : F }.

  Definition sv_add (u v : v3) : v3 := V3 (fadd o (vx u) (vx v)) (fadd o (vy u) (vy v)) (fadd o (vz u) (vz v)).
  Definition sv_sub (u v : v3) : v3 := V3 (fsub o (vx u) (vx v)) (fsub o (vy u) (vy v)) (fsub o (vz u) (vz v)).
  Definition sv_scale (a : F) (u : v3) : v3 := V3 (fmul o a (vx u)) (fmul o a (vy u)) (fmul o a (vz u)).
  Definition sv_dot (u v : v3) : F :=
    fadd o (fadd o (fmul o (vx u) (vx v)) (fmul o (vy u) (vy v))) (fmul o (vz u) (vz v)).
  Definition sv_cross (u v : v3) : v3 :=
    V3 (fsub o (fmul o (vy u) (vz v)) (fmul o (vz u) (vy v)))
       (fsub o (fmul o (vz u) (vx v)) (fmul o (vx u) (vz v)))
       (fsub o (fmul o (vx u) (vy v)) (fmul o (vy u) (vx v))).
  Definition sv_norm (u : v3) : F := fsqrt o (sv_dot u u).
  Definition sv_zero : v3 := V3 (f0 o) (f0 o) (f0 o).

  (* x^p by squaring, p : positive *)
  Fixpoint fpow_pos (x : F) (p : positive) : F :=
    match p with
    | xH => x
    | xO p' => let y := fpow_pos x p' in fmul o y y
    | xI p' => let y := fpow_pos x p' in fmul o x (fmul o y y)
    end.

  Definition fnat (n : nat) : F := fofZ o (Z.of_nat n).
End SphereVec.

Arguments V3 {F}. Arguments vx {F}. Arguments vy {F}. Arguments vz {F}.
