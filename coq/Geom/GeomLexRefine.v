(* lexer_refines_token_reader: for a well-formed 1.1 file with a Meshes section and named entries - the syntax written
   by GeomFile::save_geom and used by the sample data -

     # Domain Description 1.1
     Meshes <n>
     Mesh <name>: "<path>"            (n lines)
     Interfaces <k>
     Interface <name>: <tok> <tok> ...  (k lines)
     Domains <d>
     Domain <name>: <tok> <tok> ...     (d lines)

   the character-level reader returns exactly the token structure the file was written from.  Not covered by this
   theorem (still tied by co-execution on every generated file): the 1.0 syntax, unnamed entries, the interface
   shorthand, comments and free layout; MeshFile/vtp sections are outside the model altogether. *)
From OM Require Import Base.Lists Geom.GeomModel Geom.GeomFile Geom.GeomLex Geom.GeomLexProofs Geom.CondLexProofs.

Definition numeral (d : list nat) : Prop := d <> [] /\ forall c, In c d -> isdigit c = true.

Definition render_mesh_line (e : list nat * list nat) : list nat :=
  10 :: s_Mesh ++ 32 :: fst e ++ 58 :: 32 :: 34 :: snd e ++ [34].
Definition render_iface_line (e : list nat * list (list nat)) : list nat :=
  s_Interface ++ 32 :: fst e ++ 58 :: flat_map (fun t => 32 :: t) (snd e) ++ [10].

Definition render_v11 (cm ci cd : list nat) (ms : list (list nat * list nat)) (ifs ds : list (list nat * list (list nat))) : list nat :=
  s_header ++ 49 :: 46 :: 49 :: 10 :: s_Meshes ++ 32 :: cm
  ++ flat_map render_mesh_line ms
  ++ 10 :: s_Interfaces ++ 32 :: ci ++ 10 :: flat_map render_iface_line ifs
  ++ s_Domains ++ 32 :: cd ++ 10 :: render_lines ds.

Definition tokens_v11 (ms : list (list nat * list nat)) (ifs ds : list (list nat * list (list nat))) : lexed :=
  mkLexed V11 true (map (fun e => (Some (fst e), snd e)) ms)
          (map (fun e => (Some (fst e), map signed (snd e))) ifs)
          (map (fun d => (fst d, map dtok_of (snd d))) ds).

Definition well_formed_render (cm ci cd : list nat) (ms : list (list nat * list nat)) (ifs ds : list (list nat * list (list nat))) : Prop :=
  numeral cm /\ digits_val cm = length ms /\ numeral ci /\ digits_val ci = length ifs /\ numeral cd /\ digits_val cd = length ds
  /\ Forall (fun e => plain (fst e) /\ fst e <> [] /\ ~ In 34 (snd e)) ms
  /\ Forall (fun e => plain (fst e) /\ fst e <> [] /\ Forall word (snd e)) ifs
  /\ Forall (fun d => plain (fst d) /\ fst d <> [] /\ Forall word (snd d)) ds.

(* ---------- numbers *)
Lemma digit_not_space c : isdigit c = true -> isspace c = false.
Proof.
  unfold isdigit, isspace. intros H. apply andb_true_iff in H. destruct H as [H1 H2]. apply Nat.leb_le in H1. apply Nat.leb_le in H2.
  destruct (Nat.eqb_spec c 32); [lia|]. simpl. destruct (Nat.leb_spec 9 c), (Nat.leb_spec c 13); simpl; auto; lia.
Qed.

Lemma read_nat_numeral sp d c rest : isspace sp = true -> numeral d -> isdigit c = false ->
  read_nat (mkS (sp :: d ++ c :: rest) false) = (mkS (c :: rest) false, digits_val d).
Proof.
  intros Hs [Hne Hd] Hc. unfold read_nat. cbn [inp bad].
  destruct d as [|a d]; [congruence|].
  assert (Ha : isspace a = false) by (apply digit_not_space, Hd; left; auto).
  assert (D : drop_while isspace (sp :: (a :: d) ++ c :: rest) = (a :: d) ++ c :: rest) by (cbn [drop_while app]; rewrite Hs; cbn [drop_while]; rewrite Ha; reflexivity).
  rewrite D. destruct (take_while_app_stop isdigit (a :: d) c rest Hd Hc) as [T1 T2]. rewrite T1, T2. reflexivity.
Qed.

(* ---------- fixed prefixes (computed) *)
Lemma header_eaten tail :
  read_nat (mtch s_dot (fst (read_nat (mtch s_header (mkS (s_header ++ 49 :: 46 :: 49 :: 10 :: tail) false))))) = (mkS (10 :: tail) false, 1)
  /\ snd (read_nat (mtch s_header (mkS (s_header ++ 49 :: 46 :: 49 :: 10 :: tail) false))) = 1.
Proof. split; reflexivity. Qed.

Lemma meshes_keyword tail :
  mtch_opt s_MeshFile (skip_comments (mkS (10 :: s_Meshes ++ 32 :: tail) false)) = (mkS (s_Meshes ++ 32 :: tail) false, false)
  /\ mtch_opt s_Meshes (skip_comments (mkS (s_Meshes ++ 32 :: tail) false)) = (mkS (32 :: tail) false, true).
Proof. split; reflexivity. Qed.

Lemma mesh_line_keyword tail :
  mtch_opt (colon s_Mesh) (skip_comments (mkS (10 :: s_Mesh ++ 32 :: tail) false)) = (mkS (s_Mesh ++ 32 :: tail) false, false)
  /\ mtch s_Mesh (mkS (s_Mesh ++ 32 :: tail) false) = mkS (32 :: tail) false.
Proof. split; reflexivity. Qed.

Lemma interfaces_keyword tail :
  mtch s_Interfaces (skip_comments (mkS (10 :: s_Interfaces ++ 32 :: tail) false)) = mkS (32 :: tail) false.
Proof. reflexivity. Qed.

Lemma iface_line_keyword tail :
  mtch_opt (colon s_Interface) (skip_comments (mkS (s_Interface ++ 32 :: tail) false)) = (mkS (s_Interface ++ 32 :: tail) false, false)
  /\ mtch s_Interface (mkS (s_Interface ++ 32 :: tail) false) = mkS (32 :: tail) false.
Proof. split; reflexivity. Qed.

Lemma domains_keyword tail : mtch s_Domains (skip_comments (mkS (s_Domains ++ 32 :: tail) false)) = mkS (32 :: tail) false.
Proof. reflexivity. Qed.

Lemma domain_prefix_nl tail : mtch s_Domain (skip_comments (mkS (10 :: s_Domain ++ tail) false)) = mkS tail false.
Proof. reflexivity. Qed.

(* ---------- quoted paths *)
Lemma until_quote_spec p : ~ In 34 p -> forall t acc, until_quote (p ++ 34 :: t) acc = (t, false, acc ++ p).
Proof.
  induction p as [|c p IH]; intros H t acc; simpl.
  - rewrite app_nil_r. reflexivity.
  - destruct (Nat.eqb_spec c 34) as [->|Hn]; [exfalso; apply H; left; auto|].
    rewrite IH by (intros C; apply H; right; auto). rewrite <- app_assoc. reflexivity.
Qed.

Lemma filename_quoted p t : ~ In 34 p -> filename (mkS (32 :: 34 :: p ++ 34 :: t) false) = (mkS t false, p).
Proof. intros H. unfold filename. cbn [inp bad drop_while isblank Nat.eqb orb]. rewrite until_quote_spec by auto. reflexivity. Qed.

(* ---------- the Meshes section *)
Lemma mesh_line_shape n p rest :
  render_mesh_line (n, p) ++ rest = 10 :: s_Mesh ++ 32 :: (n ++ 58 :: 32 :: 34 :: p ++ 34 :: rest).
Proof.
  unfold render_mesh_line. cbn [fst snd]. change ((10 :: ?x) ++ rest) with (10 :: x ++ rest).
  f_equal. rewrite <- app_assoc. f_equal. rewrite <- app_comm_cons. f_equal.
  rewrite <- app_assoc. f_equal. rewrite <- !app_comm_cons. do 3 f_equal. rewrite <- app_assoc. reflexivity.
Qed.

Lemma read_mesh_lines : forall ms tail,
  Forall (fun e => plain (fst e) /\ fst e <> [] /\ ~ In 34 (snd e)) ms ->
  read_descriptions V11 s_Mesh (length ms) (mkS (flat_map render_mesh_line ms ++ tail) false)
  = (mkS tail false, map (fun e => (Some (fst e), snd e)) ms).
Proof.
  induction ms as [|[n p] ms IH]; intros tail F; [reflexivity|].
  inversion F as [|? ? (P & N & Q) F']; subst. cbn [fst snd] in P, N, Q.
  change (flat_map render_mesh_line ((n, p) :: ms)) with (render_mesh_line (n, p) ++ flat_map render_mesh_line ms).
  rewrite <- app_assoc, mesh_line_shape. cbn [length]. unfold read_descriptions. fold read_descriptions.
  destruct (mesh_line_keyword (n ++ 58 :: 32 :: 34 :: p ++ 34 :: flat_map render_mesh_line ms ++ tail)) as [K1 K2].
  rewrite K1, K2. rewrite (token_one_blank 32 n _ eq_refl P N). rewrite (filename_quoted p _ Q).
  rewrite (IH tail F'). reflexivity.
Qed.

(* ---------- the Interfaces section *)
Lemma iface_line_shape n toks rest :
  render_iface_line (n, toks) ++ rest = s_Interface ++ 32 :: (n ++ 58 :: flat_map (fun t => 32 :: t) toks ++ 10 :: rest).
Proof.
  unfold render_iface_line. cbn [fst snd]. rewrite <- app_assoc. f_equal. rewrite <- app_comm_cons. f_equal.
  rewrite <- app_assoc. f_equal. rewrite <- app_comm_cons. f_equal. rewrite <- app_assoc. reflexivity.
Qed.

Lemma read_iface_lines : forall ifs tail,
  Forall (fun e => plain (fst e) /\ fst e <> [] /\ Forall word (snd e)) ifs ->
  read_ifaces V11 (length ifs) (mkS (flat_map render_iface_line ifs ++ tail) false)
  = (mkS tail false, map (fun e => (Some (fst e), map signed (snd e))) ifs).
Proof.
  induction ifs as [|[n toks] ifs IH]; intros tail F; [reflexivity|].
  inversion F as [|? ? (P & N & W) F']; subst. cbn [fst snd] in P, N, W.
  change (flat_map render_iface_line ((n, toks) :: ifs)) with (render_iface_line (n, toks) ++ flat_map render_iface_line ifs).
  rewrite <- app_assoc, iface_line_shape. cbn [length]. unfold read_ifaces. fold read_ifaces.
  destruct (iface_line_keyword (n ++ 58 :: flat_map (fun t => 32 :: t) toks ++ 10 :: flat_map render_iface_line ifs ++ tail)) as [K1 K2].
  rewrite K1, K2. rewrite (token_one_blank 32 n _ eq_refl P N). rewrite (line_tokens_rendered toks _ W).
  rewrite (IH tail F'). reflexivity.
Qed.

Lemma mesh_opt_skipped c r : isspace c = false -> c <> 77 -> mtch_opt s_Mesh (mkS (10 :: c :: r) false) = (mkS (c :: r) false, false).
Proof.
  intros Hs Hc. unfold mtch_opt. cbn [inp bad drop_while]. change (isspace 10) with true. cbv iota. cbn [drop_while]. rewrite Hs.
  unfold s_Mesh. cbn [eat]. replace (Nat.eqb 77 c) with false by (symmetry; apply Nat.eqb_neq; auto). reflexivity.
Qed.

(* ---------- the Domains section after its count line *)
Lemma read_domains_after_count : forall ds,
  Forall (fun d => plain (fst d) /\ fst d <> [] /\ Forall word (snd d)) ds ->
  bad (fst (read_domains V11 (length ds) (mkS (10 :: render_lines ds) false))) = false
  /\ snd (read_domains V11 (length ds) (mkS (10 :: render_lines ds) false)) = map (fun d => (fst d, map dtok_of (snd d))) ds.
Proof.
  intros [|[n toks] ds] F; [split; reflexivity|].
  inversion F as [|? ? (P & N & W) F']; subst. cbn [fst snd] in P, N, W.
  change (render_lines ((n, toks) :: ds)) with (render_line n toks ++ render_lines ds).
  rewrite render_line_shape. cbn [length]. unfold read_domains. fold read_domains.
  rewrite domain_prefix_nl. rewrite (token_one_blank 32 n _ eq_refl P N). rewrite (line_tokens_rendered toks _ W).
  pose proof (read_domains_rendered ds [] F') as H. rewrite app_nil_r in H. rewrite H. split; reflexivity.
Qed.

(* ---------- the whole file *)
Theorem lexer_refines_token_reader cm ci cd ms ifs ds : well_formed_render cm ci cd ms ifs ds ->
  lex_geom (render_v11 cm ci cd ms ifs ds) = Some (tokens_v11 ms ifs ds).
Proof.
  intros (Ncm & Vcm & Nci & Vci & Ncd & Vcd & Fm & Fi & Fd).
  unfold lex_geom, render_v11.
  set (t1 := s_Meshes ++ 32 :: cm ++ flat_map render_mesh_line ms ++ 10 :: s_Interfaces ++ 32 :: ci ++ 10 :: flat_map render_iface_line ifs ++ s_Domains ++ 32 :: cd ++ 10 :: render_lines ds).
  destruct (header_eaten t1) as [H1 H2].
  destruct (read_nat (mtch s_header (mkS (s_header ++ 49 :: 46 :: 49 :: 10 :: t1) false))) as [s1 major] eqn:E1.
  cbn [fst snd] in H1, H2. subst major. rewrite H1. cbn [bad Nat.eqb].
  (* Meshes keyword and count *)
  unfold t1. destruct (meshes_keyword (cm ++ flat_map render_mesh_line ms ++ 10 :: s_Interfaces ++ 32 :: ci ++ 10 :: flat_map render_iface_line ifs ++ s_Domains ++ 32 :: cd ++ 10 :: render_lines ds)) as [K1 K2].
  rewrite K1. cbv iota. rewrite K2.
  (* the count is followed by the newline of the first mesh line, or of the Interfaces line *)
  assert (Nx : exists rest, flat_map render_mesh_line ms ++ 10 :: s_Interfaces ++ 32 :: ci ++ 10 :: flat_map render_iface_line ifs ++ s_Domains ++ 32 :: cd ++ 10 :: render_lines ds = 10 :: rest).
  { destruct ms as [|[n p] ms']; [eexists; reflexivity|]. eexists. cbn [flat_map]. rewrite <- app_assoc. rewrite mesh_line_shape. reflexivity. }
  destruct Nx as [rest Erest].
  assert (RN : read_nat (mkS (32 :: cm ++ flat_map render_mesh_line ms ++ 10 :: s_Interfaces ++ 32 :: ci ++ 10 :: flat_map render_iface_line ifs ++ s_Domains ++ 32 :: cd ++ 10 :: render_lines ds) false)
               = (mkS (flat_map render_mesh_line ms ++ 10 :: s_Interfaces ++ 32 :: ci ++ 10 :: flat_map render_iface_line ifs ++ s_Domains ++ 32 :: cd ++ 10 :: render_lines ds) false, length ms)).
  { rewrite Erest. rewrite (read_nat_numeral 32 cm 10 rest eq_refl Ncm eq_refl). rewrite Vcm. reflexivity. }
  rewrite RN. rewrite (read_mesh_lines ms _ Fm).
  (* Interfaces keyword and count *)
  rewrite interfaces_keyword.
  rewrite (read_nat_numeral 32 ci 10 _ eq_refl Nci eq_refl). rewrite Vci.
  assert (Hd : exists c r, flat_map render_iface_line ifs ++ s_Domains ++ 32 :: cd ++ 10 :: render_lines ds = c :: r /\ isspace c = false /\ c <> 77).
  { destruct ifs as [|[n toks] ifs'].
    - exists 68. eexists. split; [reflexivity|]. split; [reflexivity|discriminate].
    - exists 73. eexists. cbn [flat_map]. rewrite <- app_assoc, iface_line_shape. split; [reflexivity|]. split; [reflexivity|discriminate]. }
  destruct Hd as [c [r [Ecr [Hs Hc]]]].
  assert (MO : mtch_opt s_Mesh (mkS (10 :: flat_map render_iface_line ifs ++ s_Domains ++ 32 :: cd ++ 10 :: render_lines ds) false)
               = (mkS (flat_map render_iface_line ifs ++ s_Domains ++ 32 :: cd ++ 10 :: render_lines ds) false, false)).
  { rewrite Ecr. apply mesh_opt_skipped; auto. }
  rewrite MO. cbn [bad]. cbv iota.
  rewrite (read_iface_lines ifs _ Fi).
  (* Domains *)
  rewrite domains_keyword. rewrite (read_nat_numeral 32 cd 10 _ eq_refl Ncd eq_refl). rewrite Vcd. cbn [bad]. cbv iota.
  destruct (read_domains_after_count ds Fd) as [B D].
  destruct (read_domains V11 (length ds) (mkS (10 :: render_lines ds) false)) as [s10 doms]. cbn [fst snd] in B, D.
  rewrite B, D. reflexivity.
Qed.
