(* C10 -- abstract linear algebra (MathComp): what "invertible" buys and what a zero row sum costs. *)
From mathcomp Require Import all_ssreflect all_algebra.
Set Implicit Arguments.
Unset Strict Implicit.
Unset Printing Implicit Defensive.
Import GRing.Theory.
Local Open Scope ring_scope.

Section Inverse.
Variable F : fieldType.
Variable n : nat.

(* the contract of SymMatrix::invert on a non-singular matrix *)
Lemma inverse_identity_mc (A : 'M[F]_n) : A \in unitmx -> A *m invmx A = 1%:M /\ invmx A *m A = 1%:M.
Proof. by move=> H; split; [exact: mulmxV | exact: mulVmx]. Qed.

(* the inverse is unique: any right inverse is invmx *)
Lemma right_inverse_unique (A B : 'M[F]_n) : A *m B = 1%:M -> A \in unitmx /\ B = invmx A.
Proof.
  move=> H. have U : A \in unitmx by case/mulmx1_unit: H.
  split=> //. by rewrite -[B]mul1mx -(mulVmx U) -mulmxA H mulmx1.
Qed.

(* a non-zero vector in the kernel (e.g. the constant vector when every row sums to zero) excludes invertibility *)
Lemma kernel_vector_singular (A : 'M[F]_n) (v : 'cV[F]_n) : A *m v = 0 -> v != 0 -> A \notin unitmx.
Proof.
  move=> Av vn0; apply/negP=> U.
  have : v = 0 by rewrite -[v]mul1mx -(mulVmx U) -mulmxA Av mulmx0.
  by move/eqP; rewrite (negbTE vn0).
Qed.

(* rows summing to zero = the constant vector is in the kernel *)
Lemma row_sums_zero_kernel (A : 'M[F]_n) :
  (forall i, \sum_j A i j = 0) -> A *m (const_mx 1 : 'cV[F]_n) = 0.
Proof.
  move=> H; apply/matrixP=> i j; rewrite !mxE.
  rewrite -[RHS](H i); apply: eq_bigr => k _; by rewrite mxE mulr1.
Qed.

End Inverse.

Lemma zero_row_sums_singular (F : fieldType) n (A : 'M[F]_n.+1) : (forall i, \sum_j A i j = 0) -> A \notin unitmx.
Proof.
  move=> H; apply: (@kernel_vector_singular F n.+1 A (const_mx 1)); first exact: row_sums_zero_kernel.
  apply/eqP=> /matrixP/(_ ord0 ord0); rewrite !mxE => /eqP; by rewrite oner_eq0.
Qed.

(* statements, named so that Props/Properties_C10.v (stdlib notations) can state them without importing MathComp notations *)
Definition inverse_identity_statement : Prop :=
  forall (F : fieldType) n (A : 'M[F]_n), A \in unitmx -> A *m invmx A = 1%:M /\ invmx A *m A = 1%:M.
Definition right_inverse_unique_statement : Prop :=
  forall (F : fieldType) n (A B : 'M[F]_n), A *m B = 1%:M -> A \in unitmx /\ B = invmx A.
Definition zero_row_sums_singular_statement : Prop :=
  forall (F : fieldType) n (A : 'M[F]_n.+1), (forall i, \sum_j A i j = 0) -> A \notin unitmx.
