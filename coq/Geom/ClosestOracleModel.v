(* An independent closest-point oracle for a triangle, over a record of numeric operations (model only; the soundness
   theorem is in Geom/ClosestOracle.v): the seven candidates of the Voronoi-region classification (three vertices, the
   orthogonal projections on the three edge lines, the orthogonal projection on the plane) are formed and the first one
   that carries a Karush-Kuhn-Tucker certificate (weights >= 0 and (p-h).(V-h) <= 0 for the three vertices V) is
   returned.  It shares no code with dpc. *)
From Coq Require Import List Bool.
From OM Require Import Base.Ops Geom.V3Q Geom.Danielsson.
Import ListNotations.

Section Oracle.
Context {F : Type} (o : Ops F).
Local Notation vec := (@vec F).
Definition og (p : vec) (T : @tri F) (al : vec) (V : vec) : F :=
  vdot o (vsub o p (recon o T al)) (vsub o V (recon o T al)).
Definition nonneg (x : F) : bool := fleb o (f0 o) x.
Definition nonpos (x : F) : bool := fleb o x (f0 o).
Definition certified (p : vec) (T : @tri F) (al : vec) : bool :=
  nonneg (get3 al 0) && nonneg (get3 al 1) && nonneg (get3 al 2) &&
  nonpos (og p T al (get3 T 0)) && nonpos (og p T al (get3 T 1)) && nonpos (og p T al (get3 T 2)).
Definition edge_par (p X Y : vec) : F := fdiv o (vdot o (vsub o p X) (vsub o Y X)) (vdot o (vsub o Y X) (vsub o Y X)).
Definition candidates (p : vec) (T : @tri F) : list vec :=
  let '(A, B, C) := T in
  let one := f1 o in let z := f0 o in
  let tab := edge_par p A B in let tac := edge_par p A C in let tbc := edge_par p B C in
  let e1 := vsub o B A in let e2 := vsub o C A in let w := vsub o p A in
  let a00 := vdot o e1 e1 in let a10 := vdot o e1 e2 in let a11 := vdot o e2 e2 in
  let b0 := vdot o w e1 in let b1 := vdot o w e2 in
  let d := fsub o (fmul o a00 a11) (fmul o a10 a10) in
  let r1 := fdiv o (fsub o (fmul o b0 a11) (fmul o b1 a10)) d in
  let r2 := fdiv o (fsub o (fmul o a00 b1) (fmul o a10 b0)) d in
  [ (one, z, z); (z, one, z); (z, z, one);
    (fsub o one tab, tab, z); (fsub o one tac, z, tac); (z, fsub o one tbc, tbc);
    (fsub o (fsub o one r1) r2, r1, r2) ].
Definition closest_oracle (p : vec) (T : @tri F) : option vec := find (certified p T) (candidates p T).
End Oracle.

