(* C08 -- the integrator over the reals: linearity of the fixed rule, homogeneity of the adaptive scheme
   (same refinement tree because the stopping rule is relative), and the exact-rational instance used to show that
   additivity does NOT hold for the adaptive scheme. *)
From Coq Require Import List ZArith Bool Reals Lra QArith Qabs.
From OM Require Import Base.Ops Geom.AdaptInt.
Import ListNotations.

(* ---------------- the real instance ---------------- *)
Definition Rleb (x y : R) : bool := if Rle_dec x y then true else false.
Definition Rltb (x y : R) : bool := if Rlt_dec x y then true else false.
Definition Reqb (x y : R) : bool := if Req_EM_T x y then true else false.
(* fatan2 is not used by anything in C08/C04; it is given an arbitrary total definition here *)
Definition ROps : Ops R :=
  mkOps R 0%R 1%R Rplus Rminus Rmult Rdiv Ropp Rabs Rltb Rleb Reqb IZR sqrt ln (fun y x => atan (y / x)) PI.

Lemma Rleb_true x y : Rleb x y = true <-> (x <= y)%R.
Proof. unfold Rleb; destruct (Rle_dec x y); split; auto; discriminate. Qed.
Lemma Reqb_true x y : Reqb x y = true <-> x = y.
Proof. unfold Reqb; destruct (Req_EM_T x y); split; auto; discriminate. Qed.

Local Open Scope R_scope.

(* vector-space laws of a value type over R *)
Record VLaws {T} (V : VOps (F:=R) T) := {
  va_assoc : forall x y z, vadd V x (vadd V y z) = vadd V (vadd V x y) z;
  va_comm : forall x y, vadd V x y = vadd V y x;
  va_zero : forall x, vadd V (vzero V) x = x;
  vs_add : forall a x y, vscale V a (vadd V x y) = vadd V (vscale V a x) (vscale V a y);
  vs_plus : forall a b x, vscale V (a + b) x = vadd V (vscale V a x) (vscale V b x);
  vs_mul : forall a b x, vscale V a (vscale V b x) = vscale V (a * b) x;
  vs_zero : forall a, vscale V a (vzero V) = vzero V;
  vs_zero_l : forall x, vscale V 0 x = vzero V;
  vsub_def : forall x y, vsub V x y = vadd V x (vscale V (-1) y);
  vn_scale : forall a x, vnorm V (vscale V a x) = Rabs a * vnorm V x
}.

Lemma scalar_laws : VLaws (scalarV ROps).
Proof.
  constructor; simpl; intros; try ring.
  apply Rabs_mult.
Qed.

Lemma pt_eq (a b : pt (F:=R)) : px a = px b -> py a = py b -> pz a = pz b -> a = b.
Proof. destruct a as [[? ?] ?], b as [[? ?] ?]; unfold px, py, pz; simpl; intros; subst; auto. Qed.

Lemma vect3_laws : VLaws (vect3V ROps).
Proof.
  constructor; simpl; intros;
    try (apply pt_eq; unfold padd, psub, pscale, pzero, px, py, pz; simpl; ring).
  unfold pnorm, pnorm2, pscale; destruct x as [[x y] z]; unfold px, py, pz; simpl.
  replace (a * x * (a * x) + a * y * (a * y) + a * z * (a * z))
    with ((a * a) * (x * x + y * y + z * z)) by ring.
  rewrite sqrt_mult_alt by nra. f_equal.
  rewrite <- (sqrt_Rsqr_abs a). auto.
Qed.

Section Linear.
Context {T : Type} (V : VOps (F:=R) T) (L : VLaws V).
Variable rule : qrule (F:=R).
Variable tol : R.

Local Notation TI := (triangle_integration ROps V rule).
Local Notation "x ⊕ y" := (vadd V x y) (at level 50, left associativity).
Local Notation "a ⊙ x" := (vscale V a x) (at level 40).

Lemma vsum_acc l acc : fold_left (vadd V) l acc = acc ⊕ vsum V l.
Proof.
  unfold vsum. revert acc; induction l as [|x l IH]; intros acc; simpl.
  - rewrite (va_comm V L), (va_zero V L); auto.
  - rewrite IH, (IH (vzero V ⊕ x)), (va_zero V L), (va_assoc V L); auto.
Qed.
Lemma vsum_cons x l : vsum V (x :: l) = x ⊕ vsum V l.
Proof. unfold vsum at 1; simpl. rewrite vsum_acc, (va_zero V L); auto. Qed.
Lemma vsum_nil : vsum V [] = vzero V.
Proof. reflexivity. Qed.

Lemma vsum_scale a l : vsum V (map (vscale V a) l) = a ⊙ vsum V l.
Proof.
  induction l as [|x l IH]; simpl.
  - rewrite vsum_nil, (vs_zero V L); auto.
  - rewrite !vsum_cons, IH, (vs_add V L); auto.
Qed.

Lemma lc4 a b x1 y1 x2 y2 :
  (a ⊙ x1 ⊕ b ⊙ y1) ⊕ (a ⊙ x2 ⊕ b ⊙ y2) = a ⊙ (x1 ⊕ x2) ⊕ b ⊙ (y1 ⊕ y2).
Proof.
  rewrite !(vs_add V L).
  rewrite <- !(va_assoc V L). f_equal. rewrite !(va_assoc V L). f_equal. apply (va_comm V L).
Qed.

Lemma vsum_lc a b l1 l2 : length l1 = length l2 ->
  vsum V (map (fun xy => a ⊙ fst xy ⊕ b ⊙ snd xy) (combine l1 l2)) = a ⊙ vsum V l1 ⊕ b ⊙ vsum V l2.
Proof.
  revert l2; induction l1 as [|x l1 IH]; intros [|y l2] H; simpl in *; try discriminate.
  - rewrite !vsum_nil, !(vs_zero V L), (va_zero V L); auto.
  - rewrite !vsum_cons, IH by congruence. apply lc4.
Qed.

(* the integral depends on the values of the integrand only *)
Lemma triangle_integration_ext f g t : (forall p, f p = g p) -> TI f t = TI g t.
Proof.
  intros E. unfold triangle_integration. f_equal.
  generalize (vzero V). induction rule as [|bw r IH]; intros acc; simpl; auto. rewrite E; auto.
Qed.

(* fixed rule: exact linearity, any rule, any triangle *)
Lemma triangle_integration_linear a b f g t :
  TI (fun p => a ⊙ f p ⊕ b ⊙ g p) t = a ⊙ TI f t ⊕ b ⊙ TI g t.
Proof.
  unfold triangle_integration.
  set (A2 := area2 ROps t).
  assert (G : forall r x y,
    fold_left (fun acc bw => acc ⊕ snd bw ⊙ (a ⊙ f (quad_point ROps bw t) ⊕ b ⊙ g (quad_point ROps bw t))) r (a ⊙ x ⊕ b ⊙ y)
    = a ⊙ fold_left (fun acc bw => acc ⊕ snd bw ⊙ f (quad_point ROps bw t)) r x
      ⊕ b ⊙ fold_left (fun acc bw => acc ⊕ snd bw ⊙ g (quad_point ROps bw t)) r y).
  { induction r as [|bw r IH]; intros x y; simpl; auto.
    rewrite <- IH. f_equal.
    rewrite (vs_add V L), !(vs_mul V L), <- lc4, !(vs_mul V L).
    rewrite (Rmult_comm (snd bw) a), (Rmult_comm (snd bw) b); auto. }
  specialize (G rule (vzero V) (vzero V)). rewrite !(vs_zero V L), (va_zero V L) in G. rewrite G.
  rewrite (vs_add V L), !(vs_mul V L), (Rmult_comm A2 a), (Rmult_comm A2 b), <- !(vs_mul V L); auto.
Qed.

Lemma triangle_integration_scale a f t : TI (fun p => a ⊙ f p) t = a ⊙ TI f t.
Proof.
  unfold triangle_integration.
  set (A2 := area2 ROps t).
  assert (G : forall r x,
    fold_left (fun acc bw => acc ⊕ snd bw ⊙ (a ⊙ f (quad_point ROps bw t))) r (a ⊙ x)
    = a ⊙ fold_left (fun acc bw => acc ⊕ snd bw ⊙ f (quad_point ROps bw t)) r x).
  { induction r as [|bw r IH]; intros x; simpl; auto.
    rewrite <- IH. f_equal. rewrite (vs_add V L), !(vs_mul V L), (Rmult_comm (snd bw) a); auto. }
  specialize (G rule (vzero V)). rewrite (vs_zero V L) in G. rewrite G.
  rewrite !(vs_mul V L), (Rmult_comm A2 a); auto.
Qed.

Lemma integrate_fixed_linear a b f g t :
  integrate ROps V rule tol (fun p => a ⊙ f p ⊕ b ⊙ g p) 0 t
  = a ⊙ integrate ROps V rule tol f 0 t ⊕ b ⊙ integrate ROps V rule tol g 0 t.
Proof. apply triangle_integration_linear. Qed.

Local Notation AI := (adaptive_integration ROps V rule tol).

Lemma adaptive_ext f g level t c : (forall p, f p = g p) -> AI f level t c = AI g level t c.
Proof.
  intros E. revert t c; induction level as [|l IH]; intros t c; cbn [adaptive_integration];
    rewrite (map_ext (TI f) (TI g)) by (intros; apply triangle_integration_ext; auto); destruct (fleb ROps _ _); auto.
  f_equal. apply map_ext. intros; apply IH.
Qed.

Lemma integrate_ext f g n t : (forall p, f p = g p) ->
  integrate ROps V rule tol f n t = integrate ROps V rule tol g n t.
Proof.
  intros E. unfold integrate. rewrite (triangle_integration_ext f g _ E).
  destruct n; auto. apply adaptive_ext; auto.
Qed.

Lemma vsub_scale a x y : vsub V (a ⊙ x) (a ⊙ y) = a ⊙ vsub V x y.
Proof.
  rewrite !(vsub_def V L), (vs_add V L), !(vs_mul V L). f_equal. f_equal. ring.
Qed.

(* the stopping test is invariant under scaling by a non-zero factor *)
Lemma stop_scale a c r : a <> 0 ->
  fleb ROps (vnorm V (vsub V (a ⊙ c) (a ⊙ r))) (tol * vnorm V (a ⊙ c))
  = fleb ROps (vnorm V (vsub V c r)) (tol * vnorm V c).
Proof.
  intros Ha. rewrite vsub_scale, !(vn_scale V L). simpl.
  assert (P : 0 < Rabs a) by (apply Rabs_pos_lt; auto).
  unfold Rleb. destruct (Rle_dec _ _) as [H|H], (Rle_dec _ _) as [H'|H']; auto; exfalso.
  - apply H'. apply Rmult_le_reg_l with (Rabs a); auto. lra.
  - apply H. replace (tol * (Rabs a * vnorm V c)) with (Rabs a * (tol * vnorm V c)) by ring.
    apply Rmult_le_compat_l; lra.
Qed.

Lemma map_combine_scale a (h h' : tri (F:=R) -> T -> T) subs ints :
  (forall t c, h' t (a ⊙ c) = a ⊙ h t c) ->
  map (fun ti => h' (fst ti) (snd ti)) (combine subs (map (vscale V a) ints))
  = map (vscale V a) (map (fun ti => h (fst ti) (snd ti)) (combine subs ints)).
Proof.
  intros H. revert ints; induction subs as [|s subs IH]; intros [|i ints]; simpl; auto.
  rewrite H, IH; auto.
Qed.

(* homogeneity of the adaptive scheme: same refinement decisions, scaled values *)
Lemma adaptive_homogeneous_aux a f level t c : a <> 0 ->
  AI (fun p => a ⊙ f p) level t (a ⊙ c) = a ⊙ AI f level t c.
Proof.
  intros Ha. revert t c; induction level as [|l IH]; intros t c; cbn [adaptive_integration adaptive_tree].
  - rewrite map_ext with (g := fun s => a ⊙ TI f s) by (intros; apply triangle_integration_scale).
    rewrite <- map_map with (g := vscale V a), vsum_scale, stop_scale by auto.
    destruct (fleb ROps _ _); auto.
  - rewrite map_ext with (g := fun s => a ⊙ TI f s) by (intros; apply triangle_integration_scale).
    rewrite <- map_map with (g := vscale V a), vsum_scale, stop_scale by auto.
    destruct (fleb ROps _ _); auto.
    rewrite (map_combine_scale a (AI f l) (AI (fun p => a ⊙ f p) l)) by (intros; apply IH).
    apply vsum_scale.
Qed.

Lemma adaptive_tree_homogeneous a f level t c : a <> 0 ->
  adaptive_tree ROps V rule tol (fun p => a ⊙ f p) level t (a ⊙ c) = adaptive_tree ROps V rule tol f level t c.
Proof.
  intros Ha. revert t c; induction level as [|l IH]; intros t c; cbn [adaptive_integration adaptive_tree].
  - rewrite map_ext with (g := fun s => a ⊙ TI f s) by (intros; apply triangle_integration_scale).
    rewrite <- map_map with (g := vscale V a), vsum_scale, stop_scale by auto. auto.
  - rewrite map_ext with (g := fun s => a ⊙ TI f s) by (intros; apply triangle_integration_scale).
    rewrite <- map_map with (g := vscale V a), vsum_scale, stop_scale by auto.
    destruct (fleb ROps _ _); auto.
    unfold subtriangles; simpl. rewrite !IH; auto.
Qed.

(* the zero integrand: every level returns zero (covers the factor 0) *)
Lemma adaptive_zero_fun f level t c : (forall p, f p = vzero V) -> AI f level t c = vzero V.
Proof.
  intros Z.
  assert (TZ : forall s, TI f s = vzero V).
  { intros s. rewrite (triangle_integration_ext f (fun p => 0 ⊙ f p)) by (intros; rewrite (vs_zero_l V L); auto).
    rewrite triangle_integration_scale, (vs_zero_l V L); auto. }
  assert (SZ : forall l : list (tri (F:=R)), vsum V (map (TI f) l) = vzero V).
  { induction l as [|s l IH]; simpl; [apply vsum_nil|]. rewrite vsum_cons, TZ, IH, (va_zero V L); auto. }
  revert t c; induction level as [|l IH]; intros t c; cbn [adaptive_integration]; rewrite SZ; destruct (fleb ROps _ _); auto.
  unfold subtriangles; simpl. rewrite !IH, !vsum_cons, vsum_nil, !(va_zero V L); auto.
Qed.

Theorem adaptive_homogeneous a f n t :
  integrate ROps V rule tol (fun p => a ⊙ f p) n t = a ⊙ integrate ROps V rule tol f n t.
Proof.
  unfold integrate. rewrite triangle_integration_scale. destruct n as [|n]; auto.
  destruct (Req_EM_T a 0) as [->|Ha].
  - rewrite adaptive_zero_fun by (intros; apply (vs_zero_l V L)). rewrite (vs_zero_l V L); auto.
  - apply adaptive_homogeneous_aux; auto.
Qed.

End Linear.

(* ---------------- exact rational instance (witnesses by vm_compute) ---------------- *)
Definition Qsqrt_exact (q : Q) : Q :=        (* exact on squares of rationals; only used on such values *)
  let q := Qred q in Qmake (Z.sqrt (Qnum q * Zpos (Qden q))) (Qden q).
Definition QOps : Ops Q :=
  mkOps Q 0%Q 1%Q Qplus Qminus Qmult Qdiv Qopp Qabs
        (fun x y => match Qcompare x y with Lt => true | _ => false end)
        (fun x y => match Qcompare x y with Gt => false | _ => true end)
        Qeq_bool inject_Z Qsqrt_exact (fun x => x) (fun y x => 0%Q) 3%Q.

(* ---- additivity fails for the adaptive scheme: f and g are each refined twice, f+g only once ----
   centroid rule (1 point, weight 1/2), tolerance 1/2, max_depth 1, triangle (0,0,0),(2,0,0),(0,2,0):
     f = x^2 + 10 (x-2/3)^2,  g = -10 (x-2/3)^2,  f+g = x^2.
   All the values met are rationals whose square roots (double areas) are exact. *)
Local Open Scope Q_scope.
Definition cx_rule : qrule (F:=Q) := [((1#3, 1#3, 1#3), 1#2)].
Definition cx_tri : tri (F:=Q) := ((0, 0, 0), (2, 0, 0), (0, 2, 0)).
Definition cx_u (p : pt (F:=Q)) : Q := (px p - (2#3)) * (px p - (2#3)).
Definition cx_f (p : pt (F:=Q)) : Q := px p * px p + 10 * cx_u p.
Definition cx_g (p : pt (F:=Q)) : Q := - (10 * cx_u p).
Definition cx_int (h : pt -> Q) : Q := integrate QOps (scalarV QOps) cx_rule (1#2) h 1 cx_tri.

Lemma adaptive_not_additive_Q :
  (forall p, cx_f p + cx_g p == px p * px p) /\
  ~ (cx_int (fun p => cx_f p + cx_g p) == cx_int cx_f + cx_int cx_g) /\
  @eq rtree (adaptive_tree QOps (scalarV QOps) cx_rule (1#2) (fun p => cx_f p + cx_g p) 1 cx_tri
      (triangle_integration QOps (scalarV QOps) cx_rule (fun p => cx_f p + cx_g p) cx_tri)) Leaf /\
  @eq rtree (adaptive_tree QOps (scalarV QOps) cx_rule (1#2) cx_f 1 cx_tri
      (triangle_integration QOps (scalarV QOps) cx_rule cx_f cx_tri)) (Node Leaf Leaf Leaf Leaf).
Proof.
  split; [|split; [|split]].
  - intros p. unfold cx_f, cx_g. ring.
  - intros H. apply Qeq_bool_iff in H. vm_compute in H. discriminate.
  - vm_compute. reflexivity.
  - vm_compute. reflexivity.
Qed.
