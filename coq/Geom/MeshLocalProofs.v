(* C17 — the stand-alone Mesh up to the numbering of its private geometry is history independent:
   only geometry().vertices() (and hence Mesh::triangle) keeps a trace of earlier loads. *)
From OM Require Import Base.Lists Geom.MeshState.
Local Open Scope Z_scope.

Fixpoint posZ (x : Z) (l : list Z) : nat :=
  match l with [] => 0%nat | y :: t => if x =? y then 0%nat else S (posZ x t) end.

Lemma find_idx_some : forall v g k j, find_idx v g k = Some j -> exists i, j = (k + i)%nat /\ nth_error g i = Some v.
Proof.
  induction g as [|y t IH]; intros k j H; simpl in H; [discriminate|].
  destruct (v =? y) eqn:E.
  - inversion H; subst. exists 0%nat. split; [lia|]. apply Z.eqb_eq in E. subst. reflexivity.
  - destruct (IH _ _ H) as (i & -> & Hi). exists (S i). split; [lia | exact Hi].
Qed.

Lemma find_idx_none : forall v g k, find_idx v g k = None -> ~ In v g.
Proof.
  induction g as [|y t IH]; intros k H; simpl in *; auto.
  destruct (v =? y) eqn:E; [discriminate|]. apply Z.eqb_neq in E. intros [Hy|Ht]; [congruence | exact (IH _ H Ht)].
Qed.

Lemma NoDup_snoc : forall (g : list Z) v, NoDup g -> ~ In v g -> NoDup (g ++ [v]).
Proof.
  induction g as [|y t IH]; intros v Hn Hi; simpl.
  - constructor; [intros []|constructor].
  - inversion Hn; subst. constructor.
    + rewrite in_app_iff. intros [H|[H|[]]]; [contradiction | subst; apply Hi; left; reflexivity].
    + apply IH; auto. intros H; apply Hi; right; exact H.
Qed.

(* add_vertices only appends, keeps the vertices distinct, and maps every file vertex to a position holding it *)
Lemma add_vertices_spec : forall vs g g' im, add_vertices vs g = (g', im) -> NoDup g ->
  (exists ext, g' = g ++ ext) /\ NoDup g' /\ Forall2 (fun v k => nth_error g' k = Some v) vs im.
Proof.
  induction vs as [|v vs IH]; intros g g' im H Hn; simpl in H.
  - inversion H; subst. split; [exists []; rewrite app_nil_r; reflexivity|]. split; [assumption | constructor].
  - destruct (find_idx v g 0) as [k|] eqn:Ef.
    + destruct (add_vertices vs g) as [g1 im1] eqn:Ea. inversion H; subst.
      destruct (IH _ _ _ Ea Hn) as ((ext & ->) & Hn' & Hf).
      split; [exists ext; reflexivity|]. split; [assumption|]. constructor; [|assumption].
      destruct (find_idx_some _ _ _ _ Ef) as (i & -> & Hi). simpl.
      rewrite nth_error_app1; [assumption|]. apply nth_error_Some. congruence.
    + destruct (add_vertices vs (g ++ [v])) as [g1 im1] eqn:Ea. inversion H; subst.
      assert (Hn1 : NoDup (g ++ [v])).
      { apply NoDup_snoc; [assumption | eapply find_idx_none; eassumption]. }
      destruct (IH _ _ _ Ea Hn1) as ((ext & ->) & Hn' & Hf).
      split; [exists ([v] ++ ext); rewrite app_assoc; reflexivity|]. split; [assumption|]. constructor; [|assumption].
      rewrite <- app_assoc. rewrite nth_error_app2 by lia. rewrite Nat.sub_diag. reflexivity.
Qed.

(* positions: two indices into a duplicate-free list hold equal values iff they are equal *)
Lemma pos_in_posZ : forall (g : list Z) vs im, NoDup g -> Forall2 (fun v k => nth_error g k = Some v) vs im ->
  forall x v, nth_error g x = Some v -> pos_in x im = posZ v vs.
Proof.
  intros g vs im Hn Hf. induction Hf as [|w k vs' im' Hk Hf IH]; intros x v Hx; simpl; auto.
  destruct (Nat.eqb_spec x k) as [->|Hne].
  - rewrite Hx in Hk. inversion Hk; subst. rewrite Z.eqb_refl. reflexivity.
  - destruct (Z.eqb_spec v w) as [->|Hvw].
    + exfalso. apply Hne. eapply NoDup_nth_error; eauto.
      * apply nth_error_Some. congruence.
      * congruence.
    + f_equal. apply IH; assumption.
Qed.

Lemma Forall2_nth : forall (g : list Z) vs im, Forall2 (fun v k => nth_error g k = Some v) vs im ->
  forall a, (a < length vs)%nat -> nth_error g (nth a im 0%nat) = Some (nth a vs 0).
Proof.
  intros g vs im Hf. induction Hf as [|w k vs' im' Hk Hf IH]; intros a Ha; simpl in *; [lia|].
  destruct a as [|a]; auto. apply IH. lia.
Qed.

Lemma Forall2_len : forall (g : list Z) vs im, Forall2 (fun v k => nth_error g k = Some v) vs im -> length im = length vs.
Proof. intros g vs im Hf. induction Hf; simpl; auto. Qed.

(* the local observation of a load is a function of the file alone *)
Definition local_of_file (d : mdesc) : list Z :=
  flat_map (fun t => let '(a, b, c) := t in
     sort3 (posZ (nth a (m_vs d) 0) (m_vs d), posZ (nth b (m_vs d) 0) (m_vs d), posZ (nth c (m_vs d) 0) (m_vs d))) (m_ts d).

Lemma m_load_local : forall c i d s, NoDup (y_gverts s) -> wf_mdesc d -> m_status d = 0 ->
  m_observe_local 0 (m_load c i d s)
  = [0; Z.of_nat (length (m_vs d)); Z.of_nat (length (m_ts d)); 0; b2z (if clear_flags c then false else y_cb s); b2z (if clear_flags c then false else y_iso s)]
    ++ local_of_file d.
Proof.
  intros c i d s Hn Hwf Hst. unfold m_load. rewrite Hst. simpl negb. cbv iota.
  assert (Hn1 : NoDup (y_gverts (m_clear c s))).
  { unfold m_clear; simpl. destruct (clear_private_geometry c); [constructor | assumption]. }
  destruct (add_vertices (m_vs d) (y_gverts (m_clear c s))) as [g im] eqn:Ea.
  destruct (add_vertices_spec _ _ _ _ Ea Hn1) as (_ & Hg & Hf).
  assert (Hloc : flat_map (fun t : nat * nat * nat => let '(a, b, c0) := t in sort3 (pos_in a im, pos_in b im, pos_in c0 im))
                   (map (fun t : nat * nat * nat => let '(a, b, cc) := t in (nth a im 0%nat, nth b im 0%nat, nth cc im 0%nat)) (m_ts d))
                 = local_of_file d).
  { unfold local_of_file. unfold wf_mdesc in Hwf. induction (m_ts d) as [|[[a b] cc] ts IH]; [reflexivity|].
    inversion Hwf as [|? ? Hhd Hts]; subst. cbn beta iota in Hhd. destruct Hhd as (Ha & Hb & Hc).
    cbn [map flat_map].
    rewrite (pos_in_posZ g _ _ Hg Hf _ _ (Forall2_nth _ _ _ Hf a Ha)).
    rewrite (pos_in_posZ g _ _ Hg Hf _ _ (Forall2_nth _ _ _ Hf b Hb)).
    rewrite (pos_in_posZ g _ _ Hg Hf _ _ (Forall2_nth _ _ _ Hf cc Hc)).
    f_equal. apply IH; assumption. }
  unfold m_observe_local. cbn [y_mverts y_tris y_outer y_cb y_iso m_clear].
  rewrite Hloc, (Forall2_len _ _ _ Hf), map_length. reflexivity.
Qed.

(* reachable states keep the private geometry duplicate free *)
Lemma m_step_nodup : forall c W o s, NoDup (y_gverts s) -> NoDup (y_gverts (fst (m_step c W o s))).
Proof.
  intros c W [i| |] s Hn; simpl.
  - unfold m_load.
    assert (Hn1 : NoDup (y_gverts (m_clear c s))).
    { unfold m_clear; simpl. destruct (clear_private_geometry c); [constructor | assumption]. }
    destruct (negb (m_status (nth i W dummy_mdesc) =? 0)); [assumption|].
    destruct (add_vertices _ _) as [g im] eqn:Ea.
    destruct (add_vertices_spec _ _ _ _ Ea Hn1) as (_ & Hg & _). exact Hg.
  - destruct (y_desc s) as [i|]; [|assumption].
    destruct (negb (m_sflag (nth i W dummy_mdesc))); simpl; assumption.
  - destruct (y_desc s) as [i|]; [|assumption].
    destruct (negb (m_sflag2 (nth i W dummy_mdesc))); simpl; assumption.
Qed.
Lemma m_run_nodup : forall c W h s, NoDup (y_gverts s) -> NoDup (y_gverts (m_run c W h s)).
Proof. induction h as [|o h IH]; intros s Hn; simpl; auto. apply IH, m_step_nodup, Hn. Qed.

(* the theorem: with the flags reset by clear(), everything observable about a freshly loaded stand-alone mesh except
   the numbering of its private geometry is independent of the history, for all histories and all well-formed files *)
Lemma mesh_local_history_independent_lemma : forall c W h i,
  clear_flags c = true -> wf_mdesc (nth i W dummy_mdesc) -> m_status (nth i W dummy_mdesc) = 0 ->
  m_observe_local 0 (fst (m_step c W (MLoad i) (m_run c W h mst0))) = m_observe_local 0 (fst (m_step c W (MLoad i) mst0)).
Proof.
  intros c W h i Hc Hwf Hst. cbn [m_step fst].
  rewrite (m_load_local c i _ (m_run c W h mst0) (m_run_nodup c W h mst0 (NoDup_nil _)) Hwf Hst).
  rewrite (m_load_local c i _ mst0 (NoDup_nil _) Hwf Hst). rewrite Hc. reflexivity.
Qed.
