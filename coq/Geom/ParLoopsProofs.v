(* C05 -- general theorems of the concurrency model (proved once, for every loop, every iteration count,
   every schedule, every number type F). *)
From OM Require Import Base.Lists Geom.ParLoops.
From Coq Require Import Permutation.
Local Open Scope Z_scope.

Lemma slot_eqb_spec (a b : slot) : reflect (a = b) (slot_eqb a b).
Proof.
  destruct a as [c i], b as [d j]; unfold slot_eqb; simpl.
  destruct (Nat.eqb_spec c d), (Z.eqb_spec i j); simpl; constructor; congruence.
Qed.

Section Proofs.
  Variable F : Type.
  Variable E : Type.
  Notation basic := (basic F).
  Notation action := (action F E).
  Notation store := (store F).
  Notation sem_b := (sem_b F).
  Notation sem_bs := (sem_bs F).
  Notation supd := (supd F).
  Notation store_eq := (store_eq F).
  Notation conflict := (conflict F).
  Notation flat := (flat F E).
  Notation accesses := (accesses F E).
  Notation all_basics := (all_basics F E).
  Notation run := (run F E).
  Notation step := (step F E).
  Notation init := (init F E).
  Notation finished := (finished F E).
  Notation run_seq := (run_seq F E).
  Notation run_iter := (run_iter F E).
  Notation thread := (thread F E).
  Notation config := (config F E).

  Lemma supd_same st s x : supd st s x s = x.
  Proof. unfold ParLoops.supd. destruct (slot_eqb_spec s s); congruence. Qed.
  Lemma supd_other st s t x : s <> t -> supd st s x t = st t.
  Proof. unfold ParLoops.supd. destruct (slot_eqb_spec s t); congruence. Qed.

  Lemma store_eq_refl st : store_eq st st. Proof. intro; reflexivity. Qed.
  Lemma store_eq_sym a b : store_eq a b -> store_eq b a. Proof. intros H t; symmetry; apply H. Qed.
  Lemma store_eq_trans a b c : store_eq a b -> store_eq b c -> store_eq a c.
  Proof. intros H1 H2 t; rewrite H1; apply H2. Qed.
  Lemma supd_eq a b s x : store_eq a b -> store_eq (supd a s x) (supd b s x).
  Proof. intros H t; unfold ParLoops.supd; destruct (slot_eqb s t); auto. Qed.

  Definition se_eq (x y : store * list F) : Prop := store_eq (fst x) (fst y) /\ snd x = snd y.
  Lemma se_eq_refl x : se_eq x x. Proof. split; [apply store_eq_refl|reflexivity]. Qed.
  Lemma se_eq_sym x y : se_eq x y -> se_eq y x.
  Proof. intros [A B]; split; [apply store_eq_sym; auto|auto]. Qed.
  Lemma se_eq_trans x y z : se_eq x y -> se_eq y z -> se_eq x z.
  Proof. intros [A B] [C D]; split; [eapply store_eq_trans; eauto|congruence]. Qed.

  Lemma sem_b_mor b x y : se_eq x y -> se_eq (sem_b b x) (sem_b b y).
  Proof.
    destruct x as [s1 e1], y as [s2 e2]; intros [A B]; simpl in *; subst e2.
    destruct b as [s|s f]; simpl; split; simpl; auto.
    - rewrite (A s); auto.
    - apply supd_eq; auto.
  Qed.
  Lemma sem_bs_mor bs x y : se_eq x y -> se_eq (sem_bs bs x) (sem_bs bs y).
  Proof.
    revert x y; induction bs as [|b bs IH]; intros x y H; simpl; auto.
    apply IH, sem_b_mor; auto.
  Qed.
  Lemma sem_bs_app a b x : sem_bs (a ++ b) x = sem_bs b (sem_bs a x).
  Proof. unfold ParLoops.sem_bs; apply fold_left_app. Qed.
  Lemma sem_bs_cons a b x : sem_bs (a :: b) x = sem_bs b (sem_b a x).
  Proof. reflexivity. Qed.

  (* ---- two non-conflicting basic actions of different iterations commute ---- *)
  Lemma comm_b_b a b st ea eb : ~ conflict a b ->
    snd (sem_b a (fst (sem_b b (st, eb)), ea)) = snd (sem_b a (st, ea)) /\
    snd (sem_b b (fst (sem_b a (st, ea)), eb)) = snd (sem_b b (st, eb)) /\
    store_eq (fst (sem_b a (fst (sem_b b (st, eb)), ea))) (fst (sem_b b (fst (sem_b a (st, ea)), eb))).
  Proof.
    unfold ParLoops.conflict; intros NC.
    destruct a as [sa|sa fa], b as [sb|sb fb]; simpl in *.
    - repeat split; apply store_eq_refl.
    - assert (sa <> sb) by (intro; apply NC; auto).
      repeat split; try apply store_eq_refl; rewrite ?supd_other by auto; auto.
    - assert (sa <> sb) by (intro; apply NC; auto).
      repeat split; try apply store_eq_refl; rewrite ?supd_other by auto; auto.
    - assert (sa <> sb) by (intro; apply NC; auto).
      repeat split. intro t. unfold ParLoops.supd.
      destruct (slot_eqb_spec sa t), (slot_eqb_spec sb t); congruence.
  Qed.

  (* one basic against a list *)
  Lemma comm_b_bs b L : (forall a, In a L -> ~ conflict a b) -> forall st eL eb,
    snd (sem_b b (fst (sem_bs L (st, eL)), eb)) = snd (sem_b b (st, eb)) /\
    snd (sem_bs L (fst (sem_b b (st, eb)), eL)) = snd (sem_bs L (st, eL)) /\
    store_eq (fst (sem_b b (fst (sem_bs L (st, eL)), eb))) (fst (sem_bs L (fst (sem_b b (st, eb)), eL))).
  Proof.
    induction L as [|a L IH]; intros NC st eL eb.
    - simpl; repeat split; apply store_eq_refl.
    - rewrite !sem_bs_cons.
      assert (NCa : ~ conflict a b) by (apply NC; left; auto).
      assert (NCL : forall a', In a' L -> ~ conflict a' b) by (intros; apply NC; right; auto).
      destruct (comm_b_b a b st eL eb NCa) as (Ha & Hb & Hst).
      set (sa := fst (sem_b a (st, eL))) in *. set (ea := snd (sem_b a (st, eL))) in *.
      replace (sem_b a (st, eL)) with (sa, ea) by (unfold sa, ea; destruct (sem_b a (st, eL)); reflexivity).
      destruct (IH NCL sa ea eb) as (I1 & I2 & I3).
      (* the other order: b first, then a :: L *)
      assert (M : se_eq (sem_b a (fst (sem_b b (st, eb)), eL)) (fst (sem_b b (sa, eb)), ea)).
      { split; simpl; auto. }
      pose proof (sem_bs_mor L _ _ M) as [M1 M2].
      repeat split.
      + rewrite I1. apply Hb.
      + rewrite M2. apply I2.
      + eapply store_eq_trans; [apply I3|]. apply store_eq_sym; apply M1.
  Qed.

  (* a list against a list *)
  Lemma comm_bs_bs M L : (forall a b, In a L -> In b M -> ~ conflict a b) -> forall st eL eM,
    snd (sem_bs M (fst (sem_bs L (st, eL)), eM)) = snd (sem_bs M (st, eM)) /\
    store_eq (fst (sem_bs M (fst (sem_bs L (st, eL)), eM))) (fst (sem_bs L (fst (sem_bs M (st, eM)), eL))).
  Proof.
    induction M as [|b M IH]; intros NC st eL eM.
    - simpl; split; [reflexivity|apply store_eq_refl].
    - rewrite !sem_bs_cons.
      assert (NCb : forall a, In a L -> ~ conflict a b) by (intros; apply NC; auto; left; auto).
      assert (NCM : forall a b', In a L -> In b' M -> ~ conflict a b') by (intros; apply NC; auto; right; auto).
      destruct (comm_b_bs b L NCb st eL eM) as (H1 & H2 & H3).
      set (sb := fst (sem_b b (st, eM))) in *. set (eb := snd (sem_b b (st, eM))) in *.
      replace (sem_b b (st, eM)) with (sb, eb) by (unfold sb, eb; destruct (sem_b b (st, eM)); reflexivity).
      destruct (IH NCM sb eL eb) as (I1 & I2).
      (* left side: M after b after L;  b-after-L is se_eq to L-after-b *)
      assert (X : se_eq (sem_b b (fst (sem_bs L (st, eL)), eM)) (fst (sem_bs L (sb, eL)), eb)).
      { split; simpl; auto. }
      pose proof (sem_bs_mor M _ _ X) as [X1 X2].
      split.
      + rewrite X2. apply I1.
      + eapply store_eq_trans; [apply X1|]. apply I2.
  Qed.

  (* ---- structure lemmas ---- *)
  Lemma flat_incl it b : In b (flat it) -> In b (all_basics it).
  Proof.
    unfold ParLoops.all_basics. induction it as [|a r IH]; simpl; auto.
    destruct a as [b'|bs|e]; simpl.
    - intros [->|H]; auto.
    - rewrite map_app, !in_app_iff, map_map; simpl; rewrite map_id. intros [H|H]; auto.
    - intros [].
  Qed.
  Lemma all_basics_cons_incl a r b : In b (all_basics r) -> In b (all_basics (a :: r)).
  Proof.
    unfold ParLoops.all_basics; destruct a; simpl; auto.
    rewrite map_app, in_app_iff; auto.
  Qed.
  Lemma all_basics_act b r : In b (all_basics (Act b :: r)).
  Proof. unfold ParLoops.all_basics; simpl; auto. Qed.
  Lemma all_basics_crit bs r b : In b bs -> In b (all_basics (Crit bs :: r)).
  Proof.
    unfold ParLoops.all_basics; simpl; intros H. rewrite map_app, map_map, in_app_iff; simpl; rewrite map_id; auto.
  Qed.

  Lemma upd_cons_S {A} (x : A) l j y : upd (x :: l) (S j) y = x :: upd l j y.
  Proof. reflexivity. Qed.

  Lemma in_upd {A} (l : list A) i x y : In y (upd l i x) -> y = x \/ In y l.
  Proof.
    revert i; induction l as [|h t IH]; intros [|i]; simpl; auto.
    - intros [->|H]; auto.
    - intros [->|H]; auto. destruct (IH _ H); auto.
  Qed.
  Lemma nth_error_in_upd {A} (l : list A) i x y : nth_error l i = Some y -> In x (upd l i x).
  Proof.
    revert i; induction l as [|h t IH]; intros [|i]; simpl; try discriminate; auto.
    all: try (intros H; right; eapply IH; eauto).
  Qed.
  Lemma upd_in_other {A} (l : list A) i x y z : nth_error l i = Some z -> In y l -> y = z \/ In y (upd l i x).
  Proof.
    revert i; induction l as [|h t IH]; intros [|i]; simpl; try discriminate.
    - intros [= ->] [->|H]; auto.
    - intros H [->|H']; auto. destruct (IH _ H H'); auto.
  Qed.

  (* ---- peeling thread 0: the real configuration A against the configuration B in which iteration 0
          has already run to completion ---- *)
  Definition ncT (r0 : list action) (T : list thread) : Prop :=
    forall th a b, In th T -> In a (all_basics r0) -> In b (all_basics (t_rest F E th)) -> ~ conflict a b.

  Definition rel (A B : config) : Prop :=
    exists th0 T, c_threads F E A = th0 :: T /\ c_threads F E B = T /\ ncT (t_rest F E th0) T /\
      store_eq (c_store F E B) (fst (sem_bs (flat (t_rest F E th0)) (c_store F E A, t_env F E th0))).

  Definition step' (i : nat) (B : config) : config := match i with O => B | S j => step j B end.

  Lemma ncT_shrink0 a r T : ncT (a :: r) T -> ncT r T.
  Proof. intros H th x y Hth Hx Hy; eapply H; eauto. apply all_basics_cons_incl; auto. Qed.

  Lemma ncT_upd r0 T j th a r e' :
    nth_error T j = Some th -> t_rest F E th = a :: r -> ncT r0 T ->
    ncT r0 (upd T j {| t_env := e'; t_rest := r |}).
  Proof.
    intros Hn Hr H th' x y Hin Hx Hy.
    destruct (in_upd _ _ _ _ Hin) as [->|Hin'].
    - simpl in Hy. eapply (H th); eauto. eapply nth_error_In; eauto. rewrite Hr; apply all_basics_cons_incl; auto.
    - eapply H; eauto.
  Qed.
  Lemma ncT_upd_nil r0 T j e' : ncT r0 T -> ncT r0 (upd T j {| t_env := e'; t_rest := [] |}).
  Proof.
    intros H th' x y Hin Hx Hy.
    destruct (in_upd _ _ _ _ Hin) as [->|Hin']; [simpl in Hy; destruct Hy|eapply H; eauto].
  Qed.

  Lemma pair_eta {A B} (p : A * B) : p = (fst p, snd p). Proof. destruct p; reflexivity. Qed.

  (* a thread j>0 executes the basic list M atomically: simulation step *)
  Lemma rel_step_other (stA stB : store) e0 r0 M eM :
    (forall a b, In a (flat r0) -> In b M -> ~ conflict a b) ->
    store_eq stB (fst (sem_bs (flat r0) (stA, e0))) ->
    snd (sem_bs M (stA, eM)) = snd (sem_bs M (stB, eM)) /\
    store_eq (fst (sem_bs M (stB, eM))) (fst (sem_bs (flat r0) (fst (sem_bs M (stA, eM)), e0))).
  Proof.
    intros NC HB.
    destruct (comm_bs_bs M (flat r0) NC stA e0 eM) as (C1 & C2).
    assert (X : se_eq (stB, eM) (fst (sem_bs (flat r0) (stA, e0)), eM)) by (split; auto).
    pose proof (sem_bs_mor M _ _ X) as [X1 X2].
    split.
    - rewrite X2. symmetry; apply C1.
    - eapply store_eq_trans; [apply X1|apply C2].
  Qed.

  Lemma step_sim i A B : rel A B -> rel (step i A) (step' i B).
  Proof.
    intros (th0 & T & HA & HB & NC & HS).
    destruct i as [|j]; simpl.
    - (* thread 0 moves: B stays *)
      unfold ParLoops.step. rewrite HA; simpl.
      destruct th0 as [e0 r0]; simpl in *.
      destruct r0 as [|a r]; [exists {| t_env := e0; t_rest := [] |}, T; rewrite HA; auto|].
      destruct a as [b|bs|ex]; simpl.
      + exists {| t_env := snd (sem_b b (c_store F E A, e0)); t_rest := r |}, T; simpl.
        rewrite ?HA; simpl. repeat split; auto. { eapply ncT_shrink0; eauto. }
        simpl in HS. rewrite <- pair_eta. exact HS.
      + exists {| t_env := snd (sem_bs bs (c_store F E A, e0)); t_rest := r |}, T; simpl.
        rewrite ?HA; simpl. repeat split; auto. { eapply ncT_shrink0; eauto. }
        simpl in HS. rewrite sem_bs_app in HS. rewrite <- pair_eta. exact HS.
      + exists {| t_env := e0; t_rest := [] |}, T; simpl. rewrite ?HA; simpl. repeat split; auto.
        intros th x y _ Hx; destruct Hx.
    - (* thread j+1 of A = thread j of B *)
      unfold ParLoops.step. rewrite HA, HB; simpl.
      destruct (nth_error T j) as [th|] eqn:Hn; [|exists th0, T; auto].
      destruct th as [eM rM]; simpl.
      destruct rM as [|a r]; [exists th0, T; auto|].
      assert (Hin : In {| t_env := eM; t_rest := a :: r |} T) by (eapply nth_error_In; eauto).
      destruct a as [b|bs|ex]; simpl.
      + assert (NCb : forall a b', In a (flat (t_rest F E th0)) -> In b' [b] -> ~ conflict a b').
        { intros a b' Ha [<-|[]]. eapply NC; eauto. apply flat_incl; auto. simpl. apply all_basics_act. }
        destruct (rel_step_other (c_store F E A) (c_store F E B) (t_env F E th0) (t_rest F E th0) [b] eM NCb HS) as (R1 & R2).
        simpl in R1, R2.
        exists th0, (upd T j {| t_env := snd (sem_b b (c_store F E A, eM)); t_rest := r |}); simpl.
        rewrite ?HA, ?R1; simpl. repeat split; auto.
        eapply ncT_upd; eauto; reflexivity.
      + assert (NCb : forall a b', In a (flat (t_rest F E th0)) -> In b' bs -> ~ conflict a b').
        { intros a b' Ha Hb. eapply NC; eauto. apply flat_incl; auto. simpl. apply all_basics_crit; auto. }
        destruct (rel_step_other (c_store F E A) (c_store F E B) (t_env F E th0) (t_rest F E th0) bs eM NCb HS) as (R1 & R2).
        exists th0, (upd T j {| t_env := snd (sem_bs bs (c_store F E A, eM)); t_rest := r |}); simpl.
        rewrite ?HA, ?R1; simpl. repeat split; auto.
        eapply ncT_upd; eauto; reflexivity.
      + exists th0, (upd T j {| t_env := eM; t_rest := [] |}); simpl. rewrite ?HA; simpl. repeat split; auto.
        apply ncT_upd_nil; auto.
  Qed.

  Definition drop0 (sch : list nat) : list nat := flat_map (fun i => match i with O => [] | S j => [j] end) sch.

  Lemma run_sim sch : forall A B, rel A B -> rel (run sch A) (run (drop0 sch) B).
  Proof.
    induction sch as [|i sch IH]; intros A B H; simpl; auto.
    unfold drop0; simpl. unfold ParLoops.run. rewrite fold_left_app. fold (run (drop0 sch)).
    apply IH. destruct i; simpl; [apply (step_sim O); auto|apply (step_sim (S i)); auto].
  Qed.

  (* conflict freedom of a family in the form needed for peeling *)
  Lemma cf_tail it its : conflict_free F E (it :: its) -> conflict_free F E its.
  Proof.
    intros H i j iti itj a b Hij Hi Hj. apply (H (S i) (S j)); simpl; auto.
  Qed.
  Lemma cf_head it its : conflict_free F E (it :: its) ->
    ncT it (map (fun it => {| t_env := []; t_rest := it |}) its).
  Proof.
    intros H th a b Hth Ha Hb. apply in_map_iff in Hth as (itj & <- & Hin). simpl in Hb.
    destruct (In_nth_error _ _ Hin) as [j Hj].
    apply (H O (S j) it itj); simpl; auto.
  Qed.

  Lemma run_nil_threads sch c : c_threads F E c = [] -> run sch c = c.
  Proof.
    revert c; induction sch as [|i sch IH]; intros c H; simpl; auto.
    assert (step i c = c) as ->. { unfold ParLoops.step; rewrite H; destruct i; reflexivity. }
    apply IH; auto.
  Qed.

  (* THEOREM A.  Owner-computes loops: every complete schedule leaves exactly the store the sequential loop leaves
     (entry by entry, for ANY number type F: no property of the arithmetic is used). *)
  Theorem conflict_free_schedule_independent its :
    conflict_free F E its -> forall sch st,
    finished (run sch (init its st)) -> store_eq (c_store F E (run sch (init its st))) (run_seq its st).
  Proof.
    induction its as [|it its IH]; intros CF sch st Fin.
    - rewrite run_nil_threads by reflexivity. simpl. apply store_eq_refl.
    - set (A := init (it :: its) st). set (B := init its (run_iter it st)).
      assert (R : rel A B).
      { exists {| t_env := []; t_rest := it |}, (map (fun it => {| t_env := []; t_rest := it |}) its).
        simpl; repeat split; auto; try apply store_eq_refl; try (apply cf_head; auto). }
      pose proof (run_sim sch A B R) as (th0 & T & HA & HB & _ & HS).
      assert (FinB : finished (run (drop0 sch) B)).
      { intros th Hth. apply Fin. fold A. rewrite HA. right. rewrite <- HB. auto. }
      assert (H0 : t_rest F E th0 = []). { apply Fin. fold A. rewrite HA; left; auto. }
      rewrite H0 in HS; simpl in HS.
      simpl. eapply store_eq_trans; [apply store_eq_sym, HS|].
      apply (IH (cf_tail _ _ CF) (drop0 sch) (run_iter it st) FinB).
  Qed.

  (* complete schedules exist: the sequential one *)
  Lemma run_app s1 s2 c : run (s1 ++ s2) c = run s2 (run s1 c).
  Proof. unfold ParLoops.run; apply fold_left_app. Qed.

  Lemma nth_error_upd {A} (l : list A) i j x :
    nth_error (upd l i x) j = if (Nat.eqb i j && Nat.ltb i (length l))%bool then Some x else nth_error l j.
  Proof.
    revert i j; induction l as [|h t IH]; intros i j.
    - replace (Nat.ltb i (length (@nil A))) with false by (destruct i; reflexivity).
      rewrite andb_false_r. destruct i; reflexivity.
    - destruct i, j; simpl; auto. rewrite IH. reflexivity.
  Qed.

  Lemma nth_error_upd_same {A} (l : list A) i x y : nth_error l i = Some y -> nth_error (upd l i x) i = Some x.
  Proof. revert i; induction l as [|h t IH]; intros [|i]; simpl; try discriminate; auto. Qed.

  Lemma run_repeat_finishes k n c th :
    nth_error (c_threads F E c) k = Some th -> (length (t_rest F E th) <= n)%nat ->
    exists th', nth_error (c_threads F E (run (repeat k n) c)) k = Some th' /\ t_rest F E th' = [] /\
      length (c_threads F E (run (repeat k n) c)) = length (c_threads F E c) /\
      forall j, j <> k -> nth_error (c_threads F E (run (repeat k n) c)) j = nth_error (c_threads F E c) j.
  Proof.
    revert c th; induction n as [|n IH]; intros c th Hn Hl.
    - exists th; simpl; repeat split; auto. destruct (t_rest F E th); simpl in *; auto; lia.
    - simpl.
      assert (Hs : exists th1, nth_error (c_threads F E (step k c)) k = Some th1 /\ (length (t_rest F E th1) <= n)%nat /\
                   length (c_threads F E (step k c)) = length (c_threads F E c) /\
                   forall j, j <> k -> nth_error (c_threads F E (step k c)) j = nth_error (c_threads F E c) j).
      { unfold ParLoops.step; rewrite Hn. destruct th as [e r]; simpl in *.
        destruct r as [|a r]; [exists {| t_env := e; t_rest := [] |}; rewrite Hn; simpl; repeat split; auto; lia|].
        assert (Hlt : (k < length (c_threads F E c))%nat) by (apply nth_error_Some; congruence).
        apply Nat.ltb_lt in Hlt.
        destruct a; simpl;
          (eexists; split; [rewrite nth_error_upd, Nat.eqb_refl, Hlt; reflexivity|]; simpl; split; [simpl in Hl; lia|];
           split; [apply upd_length|]; intros j Hj; rewrite nth_error_upd; destruct (Nat.eqb_spec k j); [congruence|reflexivity]). }
      destruct Hs as (th1 & H1 & H2 & H3 & H4).
      destruct (IH (step k c) th1 H1 H2) as (th' & G1 & G2 & G3 & G4).
      exists th'; repeat split; auto; try congruence.
      intros j Hj; rewrite G4, H4; auto.
  Qed.

  Lemma seq_sched_finishes its : forall k c,
    (forall j it, nth_error its j = Some it -> exists th, nth_error (c_threads F E c) (k + j) = Some th /\ t_rest F E th = it) ->
    forall j th, (k <= j)%nat -> nth_error (c_threads F E (run (seq_sched_from F E k its) c)) j = Some th ->
      (j < k + length its)%nat -> t_rest F E th = [].
  Proof.
    induction its as [|it its IH]; intros k c Hc j th Hkj Hth Hlt.
    - simpl in Hlt; lia.
    - simpl in *. rewrite run_app in Hth.
      destruct (Hc O it eq_refl) as (th0 & Hn0 & Hr0). rewrite Nat.add_0_r in Hn0.
      destruct (run_repeat_finishes k (length it) c th0 Hn0) as (th' & G1 & G2 & G3 & G4); [rewrite Hr0; lia|].
      set (c1 := run (repeat k (length it)) c) in *.
      destruct (Nat.eq_dec j k) as [->|Hjk].
      + (* thread k is finished after its block and stays finished: later blocks touch other threads *)
        clear IH.
        assert (Keep : forall its' k' c', (k < k')%nat -> nth_error (c_threads F E c') k = Some th' ->
                         nth_error (c_threads F E (run (seq_sched_from F E k' its') c')) k = Some th').
        { induction its' as [|it' its' IH']; intros k' c' Hk' Hc'; simpl; auto.
          rewrite run_app. apply IH'; [lia|].
          clear IH'. generalize (length it'). intros n; revert c' Hc'; induction n as [|n IHn]; intros c' Hc'; simpl; auto.
          apply IHn. unfold ParLoops.step.
          destruct (nth_error (c_threads F E c') k') as [t|] eqn:Et; auto.
          destruct (t_rest F E t) as [|[b|bs|e] r]; simpl; auto.
          all: rewrite nth_error_upd; destruct (Nat.eqb_spec k' k); [lia|simpl; auto]. }
        rewrite (Keep its (S k) c1) in Hth by (auto; lia). congruence.
      + apply (IH (S k) c1) with (j := j); auto; try lia.
        intros j' it' Hj'. destruct (Hc (S j') it' Hj') as (t & T1 & T2).
        exists t; split; auto. rewrite G4 by lia. rewrite <- T1. f_equal; lia.
  Qed.

  Lemma run_length sch c : length (c_threads F E (run sch c)) = length (c_threads F E c).
  Proof.
    revert c; induction sch as [|i sch IH]; intros c; simpl; auto. rewrite IH.
    unfold ParLoops.step. destruct (nth_error (c_threads F E c) i) as [t|]; auto.
    destruct (t_rest F E t) as [|[b|bs|e] r]; simpl; auto; apply upd_length.
  Qed.

  Theorem seq_sched_complete its st : finished (run (seq_sched F E its) (init its st)).
  Proof.
    intros th Hth. destruct (In_nth_error _ _ Hth) as [j Hj].
    apply (seq_sched_finishes its O (init its st)) with (j := j); auto; try lia.
    - intros j' it Hj'. simpl. exists {| t_env := []; t_rest := it |}; split; auto.
      rewrite nth_error_map, Hj'; reflexivity.
    - assert (j < length (c_threads F E (run (seq_sched F E its) (init its st))))%nat by (apply nth_error_Some; congruence).
      rewrite run_length in H. simpl in H. rewrite map_length in H. lia.
  Qed.

  (* hence: any two complete schedules agree *)
  Corollary conflict_free_any_two_schedules its : conflict_free F E its -> forall s1 s2 st,
    finished (run s1 (init its st)) -> finished (run s2 (init its st)) ->
    store_eq (c_store F E (run s1 (init its st))) (c_store F E (run s2 (init its st))).
  Proof.
    intros CF s1 s2 st F1 F2.
    eapply store_eq_trans; [apply conflict_free_schedule_independent; auto|].
    apply store_eq_sym, conflict_free_schedule_independent; auto.
  Qed.

  Lemma conflict_free_DRF its : conflict_free F E its -> DRF F E its.
  Proof.
    intros CF i j iti itj a b Hij Hi Hj Ha Hb C. exfalso.
    apply (CF i j iti itj (fst a) (fst b)); auto; unfold ParLoops.all_basics; apply in_map; auto.
  Qed.

  (* ---- exceptions: ThreadException as a state machine ---- *)
  Definition thr_inv (its : list (list action)) (c : config) : Prop :=
    length (c_threads F E c) = length its /\
    (forall e, c_ptr F E c = Some e -> exists i it, nth_error its i = Some it /\ athrows F E it = Some e) /\
    (forall i th it, nth_error (c_threads F E c) i = Some th -> nth_error its i = Some it ->
        athrows F E (t_rest F E th) = athrows F E it \/
        (t_rest F E th = [] /\ athrows F E it <> None /\ c_ptr F E c <> None)).

  Lemma thr_inv_step its i c : thr_inv its c -> thr_inv its (step i c).
  Proof.
    intros (HL & HP & HT). unfold ParLoops.step.
    destruct (nth_error (c_threads F E c) i) as [th|] eqn:Hn; [|repeat split; auto].
    destruct th as [e r]; simpl. destruct r as [|a r]; [repeat split; auto|].
    assert (Hlt : (i < length (c_threads F E c))%nat) by (apply nth_error_Some; congruence).
    destruct (nth_error its i) as [it|] eqn:Hi; [|apply nth_error_None in Hi; lia].
    pose proof (HT i _ it Hn Hi) as Hthis; simpl in Hthis.
    destruct a as [b|bs|ex]; unfold thr_inv; simpl.
    1,2: split; [rewrite upd_length; auto|]; split; [auto|];
      intros j th' it' Hj Hj'; rewrite nth_error_upd in Hj;
      destruct (Nat.eqb_spec i j) as [->|Hne]; simpl in Hj;
      [ apply Nat.ltb_lt in Hlt; rewrite Hlt in Hj; injection Hj as <-; simpl;
        rewrite Hi in Hj'; injection Hj' as <-; destruct Hthis as [Hthis|(Hx & _)]; [left; auto|discriminate]
      | eapply HT; eauto ].
    split; [rewrite upd_length; auto|]. split.
    - intros e' [= <-]. exists i, it; split; auto.
      destruct Hthis as [Hthis|(Hx & _)]; [rewrite <- Hthis; reflexivity|discriminate].
    - intros j th' it' Hj Hj'. rewrite nth_error_upd in Hj.
      destruct (Nat.eqb_spec i j) as [->|Hne]; simpl in Hj.
      + apply Nat.ltb_lt in Hlt; rewrite Hlt in Hj; injection Hj as <-; simpl.
        rewrite Hi in Hj'; injection Hj' as <-. right; repeat split; try discriminate.
        destruct Hthis as [Hthis|(Hx & _)]; [rewrite <- Hthis; discriminate|discriminate].
      + destruct (HT j th' it' Hj Hj') as [H|(H1 & H2 & H3)]; [left; auto|right; repeat split; auto; discriminate].
  Qed.

  Lemma thr_inv_run its sch : forall c, thr_inv its c -> thr_inv its (run sch c).
  Proof. induction sch as [|i sch IH]; intros c H; simpl; auto. apply IH, thr_inv_step; auto. Qed.

  Lemma thr_inv_init its st : thr_inv its (init its st).
  Proof.
    split; [simpl; apply map_length|]. split; [simpl; discriminate|].
    intros i th it Hi Hi'. simpl in Hi. rewrite nth_error_map, Hi' in Hi. injection Hi as <-; left; reflexivity.
  Qed.

  (* THEOREM C. After ANY complete schedule the exception pointer is set iff some iteration raised, and then it
     holds an exception raised by one of the iterations (which one depends on the schedule). *)
  Theorem rethrow_iff_some_iteration_threw its sch st :
    finished (run sch (init its st)) ->
    (c_ptr F E (run sch (init its st)) <> None <-> exists i it, nth_error its i = Some it /\ athrows F E it <> None).
  Proof.
    intros Fin. destruct (thr_inv_run its sch _ (thr_inv_init its st)) as (HL & HP & HT). split.
    - destruct (c_ptr F E (run sch (init its st))) as [e|] eqn:Ep; [|congruence].
      intros _. destruct (HP e eq_refl) as (i & it & H1 & H2). exists i, it; split; auto; congruence.
    - intros (i & it & Hi & Hthr).
      assert (Hlt : (i < length its)%nat) by (apply nth_error_Some; congruence).
      destruct (nth_error (c_threads F E (run sch (init its st))) i) as [th|] eqn:Hth;
        [|apply nth_error_None in Hth; lia].
      destruct (HT i th it Hth Hi) as [H|(_ & _ & H)]; auto.
      rewrite (Fin th (nth_error_In _ _ Hth)) in H. simpl in H. congruence.
  Qed.

  Theorem rethrown_exception_was_raised its sch st e :
    c_ptr F E (run sch (init its st)) = Some e -> exists i it, nth_error its i = Some it /\ athrows F E it = Some e.
  Proof. destruct (thr_inv_run its sch _ (thr_inv_init its st)) as (_ & HP & _); auto. Qed.

  (* what the caller of a region sees *)
  Theorem region_raises_iff (r : region F E) sch st :
    r_wrapped F E r = true -> r_rethrow F E r = true ->
    finished (run sch (init (r_its F E r) st)) ->
    ((exists e, region_outcome F E r sch st = Raised F E e) <->
     exists i it, nth_error (r_its F E r) i = Some it /\ athrows F E it <> None).
  Proof.
    intros W R Fin. rewrite <- (rethrow_iff_some_iteration_threw _ sch st Fin).
    unfold ParLoops.region_outcome. rewrite W, R.
    destruct (c_ptr F E (run sch (init (r_its F E r) st))) as [e|]; split.
    - discriminate. - intros _; eauto. - intros [e H]; discriminate. - congruence.
  Qed.
  (* a region whose Rethrow was dropped swallows every exception; a body outside Run terminates the program *)
  Theorem region_without_rethrow_never_raises (r : region F E) sch st e :
    r_rethrow F E r = false -> region_outcome F E r sch st <> Raised F E e.
  Proof.
    intros R. unfold ParLoops.region_outcome. rewrite R.
    destruct (c_ptr F E _); destruct (r_wrapped F E r); discriminate.
  Qed.

  (* throw_at only removes accesses *)
  Lemma firstn_accesses_incl n (body : list action) x : In x (accesses (firstn n body)) -> In x (accesses body).
  Proof.
    revert n; induction body as [|a r IH]; intros [|n]; simpl; auto; try tauto.
    destruct a; simpl; rewrite ?in_app_iff; intros H; intuition eauto.
  Qed.
  Lemma accesses_app (a b : list action) : accesses (a ++ b) = accesses a ++ accesses b.
  Proof. induction a as [|x a IH]; simpl; auto. destruct x; simpl; rewrite IH, ?app_assoc; auto. Qed.
  Lemma throw_at_accesses_incl x (body : list action) y : In y (accesses (throw_at F E x body)) -> In y (accesses body).
  Proof.
    destruct x as [[n e]|]; simpl; auto. rewrite accesses_app, in_app_iff; simpl.
    intros [H|[]]. eapply firstn_accesses_incl; eauto.
  Qed.
  Lemma throw_at_basics_incl x (body : list action) b : In b (all_basics (throw_at F E x body)) -> In b (all_basics body).
  Proof.
    unfold ParLoops.all_basics; rewrite !in_map_iff. intros (y & <- & H). exists y; split; auto.
    eapply throw_at_accesses_incl; eauto.
  Qed.
End Proofs.
