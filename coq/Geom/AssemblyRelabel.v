(* C10 -- relabelling the unknowns conjugates the head matrix.
   pi : N -> N injective relabelling of the unknown indices (Vertex::index(), Triangle::index()).  The relabelled
   indexed geometry has the same meshes, pairs, parts and kernels; only the index tables change.  Two places of the
   code are NOT label free and appear as hypotheses: (1) the temporary S blocks (SymBloc / Bloc) are addressed by
   index MINUS the index of the mesh's first triangle, so on the meshes of a pair that uses a temporary block pi has
   to act as a translation of the triangle block; (2) deflate uses the index value 0 as "not set yet" (i_first). *)
From Coq Require Import List NArith ZArith Bool FMapPositive Reals Lra Lia.
From OM Require Import Base.Ops Geom.Assembly Geom.AssemblyProofs.
Import ListNotations.
Local Open Scope R_scope.

Definition relab_tri (pi : N -> N) (t : tri) : tri := mkTri (tid t) (tv0 t) (tv1 t) (tv2 t) (pi (tix t)).
Definition relab_mesh (pi : N -> N) (m : mesh) : mesh :=
  mkMesh (mverts m) (map (relab_tri pi) (mtris m)) (mouter m) (mbarrier m) (misolated m).
Definition relab (pi : N -> N) (g : igeom R) : igeom R :=
  mkGeom (map pi (gvix g)) (map (relab_mesh pi) (gmeshes g)) (gpairs g) (gparts g) (gnparams g) (gnbarrier g).

Lemma fold_left_map {A B C} (f : A -> C -> A) (h : B -> C) (l : list B) a :
  fold_left f (map h l) a = fold_left (fun acc x => f acc (h x)) l a.
Proof. revert a; induction l; simpl; auto. Qed.

Section Relabel.
Variable K : R.
Variable pos : N -> R * R * R.
Variable area : N -> R.
Variable Sk : N -> N -> R.
Variable Dk : N -> N -> nat -> R.
Variable g : igeom R.
Variable pi : N -> N.
Hypothesis pi_inj : forall a b, pi a = pi b -> a = b.
Hypothesis pi_noidx : pi NOIDX = NOIDX.          (* the "no unknown" marker is not relabelled *)
Hypothesis pi_zero : pi 0%N = 0%N.               (* (2): keeps the i_first==0 sentinel of deflate meaningful *)
Notation g' := (relab pi g).
Notation mgetR := (mget RO).
Notation maddR := (madd RO).

Lemma vix_relab v : vix g' v = pi (vix g v).
Proof. unfold vix. simpl. rewrite <- pi_noidx at 1. apply map_nth. Qed.
Lemma gmesh_relab k : gmesh g' k = relab_mesh pi (gmesh g k).
Proof. unfold gmesh. simpl. change empty_mesh with (relab_mesh pi empty_mesh). apply map_nth. Qed.
Lemma tris_of_relab m v : tris_of (relab_mesh pi m) v = map (relab_tri pi) (tris_of m v).
Proof.
  unfold tris_of. simpl. induction (mtris m) as [|t l IH]; simpl; auto.
  change (has_v (relab_tri pi t) v) with (has_v t v). destruct (has_v t v); simpl; rewrite IH; auto.
Qed.
Lemma front_relab m : front_ix (relab_mesh pi m) = pi (front_ix m).
Proof. unfold front_ix. simpl. destruct (mtris m); simpl; auto. Qed.

(* conjugation of two stores *)
Definition Conj (M M' : store R) : Prop := forall i j, mgetR M' (pi i) (pi j) = mgetR M i j.

Lemma hit_pi a b i j : hit (pi a) (pi b) (pi i) (pi j) = hit a b i j.
Proof.
  unfold hit.
  assert (forall x y, N.eqb (pi x) (pi y) = N.eqb x y) as E.
  { intros x y. destruct (N.eqb_spec x y) as [->|H]; [apply N.eqb_refl|]. apply N.eqb_neq. intros C; apply H, pi_inj; auto. }
  rewrite !E; auto.
Qed.
Lemma Conj_mset M M' a b x : Conj M M' -> Conj (mset M a b x) (mset M' (pi a) (pi b) x).
Proof. intros H i j. rewrite !mget_mset. fold (hit (pi a) (pi b) (pi i) (pi j)). fold (hit a b i j). rewrite hit_pi, H; auto. Qed.
Lemma Conj_madd M M' a b x : Conj M M' -> Conj (maddR M a b x) (maddR M' (pi a) (pi b) x).
Proof. intros H i j. rewrite !mget_madd, hit_pi, H; auto. Qed.
Lemma Conj_empty : Conj sempty sempty.
Proof. intros i j. rewrite !mget_empty; auto. Qed.
Lemma Conj_fold {A} (f f' : store R -> A -> store R) (L : list A) :
  (forall a, In a L -> forall M M', Conj M M' -> Conj (f M a) (f' M' a)) ->
  forall M M', Conj M M' -> Conj (fold_left f L M) (fold_left f' L M').
Proof.
  induction L as [|a L IH]; intros Hf M M' H; simpl; auto.
  apply IH; [intros; apply Hf; simpl; auto|]. apply Hf; simpl; auto.
Qed.

(* ---- N values only read S at the triangle indices of the two meshes ---- *)
Lemma Nval_relab fac S S' m1 m2 a b :
  (forall t1 t2, In t1 (mtris m1) -> In t2 (mtris m2) -> S' (pi (tix t1)) (pi (tix t2)) = S (tix t1) (tix t2)) ->
  Nval RO pos area fac S' (relab_mesh pi m1) (relab_mesh pi m2) a b = Nval RO pos area fac S m1 m2 a b.
Proof.
  intros H. unfold Nval. rewrite !tris_of_relab, fold_left_map.
  assert (forall l acc, incl l (mtris m1) ->
    fold_left (fun acc0 x => fold_left (fun acc1 t2 => fsub RO acc1 (Nterm RO pos area fac S' (relab_tri pi x) a t2 b))
                                       (map (relab_tri pi) (tris_of m2 b)) acc0) l acc
    = fold_left (fun acc0 t1 => fold_left (fun acc1 t2 => fsub RO acc1 (Nterm RO pos area fac S t1 a t2 b)) (tris_of m2 b) acc0) l acc) as G.
  { induction l as [|t1 l IH]; intros acc Hl; simpl; auto.
    rewrite <- IH by (intros x Hx; apply Hl; simpl; auto). f_equal.
    rewrite fold_left_map.
    assert (forall l2 acc2, incl l2 (mtris m2) ->
      fold_left (fun acc1 x => fsub RO acc1 (Nterm RO pos area fac S' (relab_tri pi t1) a (relab_tri pi x) b)) l2 acc2
      = fold_left (fun acc1 t2 => fsub RO acc1 (Nterm RO pos area fac S t1 a t2 b)) l2 acc2) as G2.
    { induction l2 as [|t2 l2 IH2]; intros acc2 Hl2; simpl; auto.
      rewrite IH2 by (intros x Hx; apply Hl2; simpl; auto). f_equal. f_equal.
      unfold Nterm. simpl tix. simpl tid. rewrite H by (try apply Hl; try apply Hl2; simpl; auto).
      reflexivity. }
    apply G2. unfold tris_of. intros x Hx. apply filter_In in Hx. tauto. }
  apply G. unfold tris_of. intros x Hx. apply filter_In in Hx. tauto.
Qed.

(* ---- blocks ---- *)
Lemma S_diag_conj coeff ts : forall M M', Conj M M' ->
  Conj (S_diag RO Sk (@mset R) M coeff ts) (S_diag RO Sk (@mset R) M' coeff (map (relab_tri pi) ts)).
Proof.
  induction ts as [|t1 rest IH]; intros M M' H; cbn [S_diag map]; auto.
  apply IH. change (relab_tri pi t1 :: map (relab_tri pi) rest) with (map (relab_tri pi) (t1 :: rest)).
  rewrite fold_left_map. revert M M' H. apply Conj_fold. intros t2 _ M M' H. apply Conj_mset; auto.
Qed.
Lemma S_off_conj coeff ts1 ts2 : forall M M', Conj M M' ->
  Conj (S_off RO Sk (@mset R) M coeff ts1 ts2) (S_off RO Sk (@mset R) M' coeff (map (relab_tri pi) ts1) (map (relab_tri pi) ts2)).
Proof.
  unfold S_off. intros M M' H. rewrite fold_left_map. revert M M' H. apply Conj_fold. intros t1 _ M M' H.
  rewrite fold_left_map. revert M M' H. apply Conj_fold. intros t2 _ M M' H. apply Conj_mset; auto.
Qed.
Lemma D_block_conj coeff ts1 ts2 : forall M M', Conj M M' ->
  Conj (D_block RO Dk g M coeff ts1 ts2) (D_block RO Dk g' M' coeff (map (relab_tri pi) ts1) (map (relab_tri pi) ts2)).
Proof.
  unfold D_block. intros M M' H. rewrite fold_left_map. revert M M' H. apply Conj_fold. intros t1 _ M M' H.
  rewrite fold_left_map. revert M M' H. apply Conj_fold. intros t2 _ M M' H.
  revert M M' H. apply Conj_fold. intros i _ M M' H.
  rewrite vix_relab. change (tvi (relab_tri pi t2) i) with (tvi t2 i). apply Conj_madd; auto.
Qed.
Lemma N_off_conj coeff S S' m1 m2 :
  (forall t1 t2, In t1 (mtris m1) -> In t2 (mtris m2) -> S' (pi (tix t1)) (pi (tix t2)) = S (tix t1) (tix t2)) ->
  forall M M', Conj M M' ->
  Conj (N_off RO pos area g M coeff S m1 m2) (N_off RO pos area g' M' coeff S' (relab_mesh pi m1) (relab_mesh pi m2)).
Proof.
  intros HS. unfold N_off. simpl mverts. apply Conj_fold. intros a _ M M' H. revert M M' H. apply Conj_fold. intros b _ M M' H.
  rewrite !vix_relab, (Nval_relab _ S S') by auto. apply Conj_madd; auto.
Qed.
Lemma N_diag_conj coeff S S' m :
  (forall t1 t2, In t1 (mtris m) -> In t2 (mtris m) -> S' (pi (tix t1)) (pi (tix t2)) = S (tix t1) (tix t2)) ->
  forall vs M M', Conj M M' ->
  Conj (N_diag RO pos area g M coeff S m vs) (N_diag RO pos area g' M' coeff S' (relab_mesh pi m) vs).
Proof.
  intros HS. induction vs as [|a rest IH]; intros M M' H; cbn [N_diag]; auto.
  apply IH. revert M M' H. apply Conj_fold. intros b _ M M' H.
  rewrite !vix_relab, (Nval_relab _ S S') by auto. apply Conj_madd; auto.
Qed.

(* (1) translation of the triangle block of a mesh: what SymBloc / Bloc addressing needs *)
Definition translated (m : mesh) : Prop := forall t, In t (mtris m) -> (pi (tix t) - pi (front_ix m) = tix t - front_ix m)%N.

Lemma S_diag_bloc_same off off' ts : (forall t, In t ts -> (pi (tix t) - off' = tix t - off)%N) -> forall B,
  S_diag RO Sk (sbset off') B (f1 RO) (map (relab_tri pi) ts) = S_diag RO Sk (sbset off) B (f1 RO) ts.
Proof.
  induction ts as [|t1 rest IH]; intros H B; cbn [S_diag map]; auto.
  rewrite IH by (intros; apply H; simpl; auto). f_equal.
  change (relab_tri pi t1 :: map (relab_tri pi) rest) with (map (relab_tri pi) (t1 :: rest)). rewrite fold_left_map.
  assert (forall L B0, incl L (t1 :: rest) ->
    fold_left (fun acc x => sbset off' acc (tix (relab_tri pi t1)) (tix (relab_tri pi x)) (fmul RO (Sk (tid (relab_tri pi t1)) (tid (relab_tri pi x))) (f1 RO))) L B0
    = fold_left (fun B1 t2 => sbset off B1 (tix t1) (tix t2) (fmul RO (Sk (tid t1) (tid t2)) (f1 RO))) L B0) as G.
  { induction L as [|t2 L IHL]; intros B0 HL; simpl; auto.
    rewrite IHL by (intros x Hx; apply HL; simpl; auto). f_equal.
    unfold sbset. simpl tix. rewrite (H t1) by (simpl; auto). rewrite (H t2) by (apply HL; simpl; auto). reflexivity. }
  apply G, incl_refl.
Qed.
Lemma S_off_bloc_same i0 j0 i0' j0' ts1 ts2 :
  (forall t, In t ts1 -> (pi (tix t) - i0' = tix t - i0)%N) -> (forall t, In t ts2 -> (pi (tix t) - j0' = tix t - j0)%N) -> forall B,
  S_off RO Sk (bset i0' j0') B (f1 RO) (map (relab_tri pi) ts1) (map (relab_tri pi) ts2) = S_off RO Sk (bset i0 j0) B (f1 RO) ts1 ts2.
Proof.
  intros H1 H2 B. unfold S_off. rewrite fold_left_map.
  assert (forall L B0, incl L ts1 ->
    fold_left (fun acc x => fold_left (fun B1 t2 => bset i0' j0' B1 (tix (relab_tri pi x)) (tix t2) (fmul RO (Sk (tid (relab_tri pi x)) (tid t2)) (f1 RO)))
                                      (map (relab_tri pi) ts2) acc) L B0
    = fold_left (fun B1 t1 => fold_left (fun B2 t2 => bset i0 j0 B2 (tix t1) (tix t2) (fmul RO (Sk (tid t1) (tid t2)) (f1 RO))) ts2 B1) L B0) as G.
  { induction L as [|t1 L IHL]; intros B0 HL; simpl; auto.
    rewrite IHL by (intros x Hx; apply HL; simpl; auto). f_equal. rewrite fold_left_map.
    assert (forall L2 B1, incl L2 ts2 ->
      fold_left (fun acc x => bset i0' j0' acc (pi (tix t1)) (tix (relab_tri pi x)) (fmul RO (Sk (tid t1) (tid (relab_tri pi x))) (f1 RO))) L2 B1
      = fold_left (fun B2 t2 => bset i0 j0 B2 (tix t1) (tix t2) (fmul RO (Sk (tid t1) (tid t2)) (f1 RO))) L2 B1) as G2.
    { induction L2 as [|t2 L2 IH2]; intros B1 HL2; simpl; auto.
      rewrite IH2 by (intros x Hx; apply HL2; simpl; auto). f_equal.
      unfold bset. simpl tix. rewrite (H1 t1) by (apply HL; simpl; auto). rewrite (H2 t2) by (apply HL2; simpl; auto). reflexivity. }
    apply G2, incl_refl. }
  apply G, incl_refl.
Qed.

(* ---- one pair ---- *)
Lemma tris_eqb_relab l1 : forall l2, tris_eqb (map (relab_tri pi) l1) (map (relab_tri pi) l2) = tris_eqb l1 l2.
Proof. induction l1 as [|a r IH]; intros [|b r2]; simpl; auto. rewrite IH. reflexivity. Qed.

Definition pair_cS (p : pair R) : R := fmul RO (fmul RO (fofZ RO (porient p)) K) (psiginv p).
(* does set_N_block of this pair go through a temporary S block ? (S_block_is_computed() false) *)
Definition uses_bloc (p : pair R) : bool :=
  let m1 := gmesh g (pm1 p) in let m2 := gmesh g (pm2 p) in
  if Nat.eqb (pm1 p) (pm2 p) then feqb RO (if mbarrier m1 then f0 RO else pair_cS p) (f0 RO)
  else feqb RO (if (negb (mbarrier m1) && negb (mbarrier m2))%bool then pair_cS p else f0 RO) (f0 RO).
Definition pair_translated (p : pair R) : Prop :=
  uses_bloc p = true -> translated (gmesh g (pm1 p)) /\ translated (gmesh g (pm2 p)).

Lemma pair_step_conj p : pair_translated p -> forall M M', Conj M M' ->
  Conj (pair_step RO K pos area Sk Dk g M p) (pair_step RO K pos area Sk Dk g' M' p).
Proof.
  intros HT M M' H. unfold pair_step. cbv zeta. rewrite !gmesh_relab.
  unfold pair_translated, uses_bloc, pair_cS in HT. cbv zeta in HT.
  set (cS := fmul RO (fmul RO (fofZ RO (porient p)) K) (psiginv p)) in *.
  set (cN := fmul RO (fmul RO (fofZ RO (porient p)) K) (psig p)).
  set (cD := fmul RO (fopp RO (fmul RO (fofZ RO (porient p)) K)) (pind p)).
  clearbody cS cN cD.
  set (m1 := gmesh g (pm1 p)) in *. set (m2 := gmesh g (pm2 p)) in *.
  destruct (Nat.eqb (pm1 p) (pm2 p)).
  - unfold diag_block. cbv zeta. simpl mbarrier. simpl mtris. simpl mverts. rewrite front_relab.
    assert (Conj (if mbarrier m1 then M else S_diag RO Sk (@mset R) M cS (mtris m1))
                 (if mbarrier m1 then M' else S_diag RO Sk (@mset R) M' cS (map (relab_tri pi) (mtris m1)))) as H1.
    { destruct (mbarrier m1); auto. apply S_diag_conj; auto. }
    set (MA := if mbarrier m1 then M else S_diag RO Sk (@mset R) M cS (mtris m1)) in *.
    set (MA' := if mbarrier m1 then M' else S_diag RO Sk (@mset R) M' cS (map (relab_tri pi) (mtris m1))) in *.
    assert (Conj (if feqb RO (if mbarrier m1 then f0 RO else cS) (f0 RO)
                  then N_diag RO pos area g MA cN (sbget RO (front_ix m1) (S_diag RO Sk (sbset (front_ix m1)) sempty (f1 RO) (mtris m1))) m1 (mverts m1)
                  else N_diag RO pos area g MA (fdiv RO cN (if mbarrier m1 then f0 RO else cS)) (mgetR MA) m1 (mverts m1))
                 (if feqb RO (if mbarrier m1 then f0 RO else cS) (f0 RO)
                  then N_diag RO pos area g' MA' cN (sbget RO (pi (front_ix m1)) (S_diag RO Sk (sbset (pi (front_ix m1))) sempty (f1 RO) (map (relab_tri pi) (mtris m1)))) (relab_mesh pi m1) (mverts m1)
                  else N_diag RO pos area g' MA' (fdiv RO cN (if mbarrier m1 then f0 RO else cS)) (mgetR MA') (relab_mesh pi m1) (mverts m1))) as H2.
    { destruct (feqb RO (if mbarrier m1 then f0 RO else cS) (f0 RO)).
      - destruct (HT eq_refl) as [T1 _].
        rewrite (S_diag_bloc_same (front_ix m1) (pi (front_ix m1)) (mtris m1) T1).
        apply N_diag_conj; [intros t1 t2 I1 I2; unfold sbget; rewrite (T1 t1 I1), (T1 t2 I2); reflexivity | exact H1].
      - apply N_diag_conj; [intros t1 t2 _ _; apply H1 | exact H1]. }
    destruct (mbarrier m1); auto. apply D_block_conj; auto.
  - unfold nondiag_block. cbv zeta. simpl mbarrier. simpl mtris. rewrite !front_relab, tris_eqb_relab.
    set (both := (negb (mbarrier m1) && negb (mbarrier m2))%bool) in *.
    assert (Conj (if both then S_off RO Sk (@mset R) M cS (mtris m1) (mtris m2) else M)
                 (if both then S_off RO Sk (@mset R) M' cS (map (relab_tri pi) (mtris m1)) (map (relab_tri pi) (mtris m2)) else M')) as H1.
    { destruct both; auto. apply S_off_conj; auto. }
    set (MA := if both then S_off RO Sk (@mset R) M cS (mtris m1) (mtris m2) else M) in *.
    set (MA' := if both then S_off RO Sk (@mset R) M' cS (map (relab_tri pi) (mtris m1)) (map (relab_tri pi) (mtris m2)) else M') in *.
    assert (Conj (if feqb RO (if both then cS else f0 RO) (f0 RO)
                  then N_off RO pos area g MA cN (bget RO (front_ix m1) (front_ix m2) (S_off RO Sk (bset (front_ix m1) (front_ix m2)) sempty (f1 RO) (mtris m1) (mtris m2))) m1 m2
                  else N_off RO pos area g MA (fdiv RO cN (if both then cS else f0 RO)) (mgetR MA) m1 m2)
                 (if feqb RO (if both then cS else f0 RO) (f0 RO)
                  then N_off RO pos area g' MA' cN (bget RO (pi (front_ix m1)) (pi (front_ix m2)) (S_off RO Sk (bset (pi (front_ix m1)) (pi (front_ix m2))) sempty (f1 RO) (map (relab_tri pi) (mtris m1)) (map (relab_tri pi) (mtris m2)))) (relab_mesh pi m1) (relab_mesh pi m2)
                  else N_off RO pos area g' MA' (fdiv RO cN (if both then cS else f0 RO)) (mgetR MA') (relab_mesh pi m1) (relab_mesh pi m2))) as H2.
    { destruct (feqb RO (if both then cS else f0 RO) (f0 RO)).
      - destruct (HT eq_refl) as [T1 T2].
        rewrite (S_off_bloc_same (front_ix m1) (front_ix m2) (pi (front_ix m1)) (pi (front_ix m2)) (mtris m1) (mtris m2) T1 T2).
        apply N_off_conj; [intros t1 t2 I1 I2; unfold bget; rewrite (T1 t1 I1), (T2 t2 I2); reflexivity | exact H1].
      - apply N_off_conj; [intros t1 t2 _ _; apply H1 | exact H1]. }
    match goal with |- Conj (if _ then D_block _ _ _ ?A _ _ _ else ?A) (if _ then D_block _ _ _ ?B _ _ _ else ?B) =>
      assert (Conj A B) as H3 end.
    { destruct (mbarrier m1); auto. apply D_block_conj; auto. }
    destruct (negb (tris_eqb (mtris m1) (mtris m2)) && negb (mbarrier m2))%bool; auto. apply D_block_conj; auto.
Qed.

(* ---- deflate ---- *)
Lemma pi_eq0 x : N.eqb (pi x) 0 = N.eqb x 0.
Proof.
  destruct (N.eqb_spec x 0) as [->|H]; [rewrite pi_zero; reflexivity|].
  apply N.eqb_neq. intros C. apply H, pi_inj. rewrite C, pi_zero; auto.
Qed.
Lemma part_scan_relab part : part_scan g' part = (fst (part_scan g part), pi (snd (part_scan g part))).
Proof.
  unfold part_scan.
  assert (forall nb i0,
    fold_left (fun '(nb, ifirst) k => let m := gmesh g' k in
       if mouter m then ((nb + N.of_nat (length (mverts m)))%N, if N.eqb ifirst 0 then vix g' (hd 0%N (mverts m)) else ifirst) else (nb, ifirst)) part (nb, pi i0)
    = (fst (fold_left (fun '(nb, ifirst) k => let m := gmesh g k in
       if mouter m then ((nb + N.of_nat (length (mverts m)))%N, if N.eqb ifirst 0 then vix g (hd 0%N (mverts m)) else ifirst) else (nb, ifirst)) part (nb, i0)),
       pi (snd (fold_left (fun '(nb, ifirst) k => let m := gmesh g k in
       if mouter m then ((nb + N.of_nat (length (mverts m)))%N, if N.eqb ifirst 0 then vix g (hd 0%N (mverts m)) else ifirst) else (nb, ifirst)) part (nb, i0))))) as G.
  { induction part as [|k part IH]; intros nb i0; simpl; auto.
    rewrite gmesh_relab. simpl mouter. simpl mverts. destruct (mouter (gmesh g k)); auto.
    rewrite pi_eq0, vix_relab. destruct (N.eqb i0 0); apply IH. }
  specialize (G 0%N 0%N). rewrite pi_zero in G. exact G.
Qed.

Lemma deflate_mesh_conj coef vs : forall M M', Conj M M' -> Conj (deflate_mesh RO g M coef vs) (deflate_mesh RO g' M' coef vs).
Proof.
  induction vs as [|a rest IH]; intros M M' H; cbn [deflate_mesh]; auto.
  apply IH. revert M M' H. apply Conj_fold. intros b _ M M' H. rewrite !vix_relab. apply Conj_madd; auto.
Qed.
Lemma deflate_part_conj part M M' : Conj M M' -> Conj (deflate_part RO g M part) (deflate_part RO g' M' part).
Proof.
  intros H. unfold deflate_part. rewrite part_scan_relab. destruct (part_scan g part) as [nb ifirst]. simpl fst. simpl snd.
  rewrite (H ifirst ifirst).
  set (coef := fdiv RO (mgetR M ifirst ifirst) (fofZ RO (Z.of_N nb))). clearbody coef.
  revert M M' H. induction part as [|k part IH]; intros M M' H; simpl; auto.
  apply IH. rewrite gmesh_relab. simpl mouter. simpl mverts. destruct (mouter (gmesh g k)); auto. apply deflate_mesh_conj; auto.
Qed.

Definition all_pairs_translated : Prop := forall p, In p (gpairs g) -> pair_translated p.

Theorem headmat_relabel_conjugate_lemma : all_pairs_translated ->
  forall i j, mgetR (headmat RO K pos area Sk Dk g') (pi i) (pi j) = mgetR (headmat RO K pos area Sk Dk g) i j.
Proof.
  intros HT. unfold headmat, deflate, assemble_pairs. simpl gparts. simpl gpairs.
  assert (forall L M M', incl L (gpairs g) -> Conj M M' ->
    Conj (fold_left (pair_step RO K pos area Sk Dk g) L M) (fold_left (pair_step RO K pos area Sk Dk g') L M')) as GP.
  { induction L as [|p L IH]; intros M M' HL H; simpl; auto.
    apply IH; [intros x Hx; apply HL; simpl; auto|]. apply pair_step_conj; auto. apply HT, HL; simpl; auto. }
  assert (forall L M M', Conj M M' -> Conj (fold_left (deflate_part RO g) L M) (fold_left (deflate_part RO g') L M')) as GD.
  { induction L as [|q L IH]; intros M M' H; simpl; auto. apply IH. apply deflate_part_conj; auto. }
  apply GD. apply GP; [apply incl_refl|apply Conj_empty].
Qed.
End Relabel.
