(* Lemmas about the .geom reader model: renaming, legacy syntax, optional '+', "shared". *)
From OM Require Import Base.Lists Geom.GeomModel Geom.GeomFile.
Local Open Scope Z_scope.

Section Rename.
Variable f : nat -> nat.
Hypothesis f_inj : forall a b, f a = f b -> a = b.
Variable numname : nat -> nat.

Definition ren_pair {A} (p : nat * A) : nat * A := (f (fst p), snd p).
Definition ren_opt {A} (p : option nat * A) : option nat * A := (option_map f (fst p), snd p).
Definition ren_stok (t : sgn * nat) : sgn * nat := (fst t, f (snd t)).
Definition ren_dtok (t : dtok) : dtok := match t with DShared => DShared | DTok t => DTok (ren_stok t) end.

Definition ren_file (g : gfile) : gfile :=
  mkGFile (gf_version g)
          (option_map (map ren_opt) (gf_meshes g))
          (map ren_opt (gf_ifaces_as_meshes g))
          (map (fun e => (option_map f (fst e), map ren_stok (snd e))) (gf_ifaces g))
          (map (fun e => (f (fst e), map ren_dtok (snd e))) (gf_domains g)).

Lemma eqb_inj a b : Nat.eqb (f a) (f b) = Nat.eqb a b.
Proof. destruct (Nat.eqb_spec a b) as [->|H]; [apply Nat.eqb_refl|]. apply Nat.eqb_neq. intros C. apply H, f_inj, C. Qed.

Lemma name_entries_ren {A} v : forall (l : list (option nat * A)) k,
  name_entries (fun k => f (numname k)) v k (map ren_opt l) = map ren_pair (name_entries numname v k l).
Proof.
  induction l as [|[g a] l IH]; intros k; simpl; auto. rewrite IH. f_equal.
  unfold ren_pair, entry_name; simpl. destruct v, g; reflexivity.
Qed.

Lemma name_entries_ren2 v : forall (l : list (option nat * list (sgn * nat))) k,
  name_entries (fun k => f (numname k)) v k (map (fun e => (option_map f (fst e), map ren_stok (snd e))) l)
  = map (fun e => (f (fst e), map ren_stok (snd e))) (name_entries numname v k l).
Proof.
  induction l as [|[g a] l IH]; intros k; simpl; auto. rewrite IH. f_equal.
  unfold entry_name; simpl. destruct v, g; reflexivity.
Qed.

Lemma find_name_ren {A} n : forall (l : list (nat * A)) k,
  find_name (f n) (map ren_pair l) k = find_name n l k.
Proof. induction l as [|[m a] l IH]; intros k; simpl; auto. rewrite eqb_inj, IH. reflexivity. Qed.

Lemma resolve_meshes_ren {A} (ms : list (nat * A)) : forall ts,
  resolve_meshes (map ren_pair ms) (map ren_stok ts) = resolve_meshes ms ts.
Proof. induction ts as [|[s n] ts IH]; simpl; auto. rewrite find_name_ren, IH. reflexivity. Qed.

Lemma resolve_ifaces_ren {A} (ms : list (nat * A)) : forall l,
  resolve_ifaces (map ren_pair ms) (map (fun e => (f (fst e), map ren_stok (snd e))) l)
  = option_map (map ren_pair) (resolve_ifaces ms l).
Proof.
  induction l as [|[n ts] l IH]; simpl; auto. rewrite resolve_meshes_ren, IH.
  destruct (resolve_meshes ms ts); auto. destruct (resolve_ifaces ms l); auto.
Qed.

Lemma resolve_bounds_ren {A} (ifs : list (nat * A)) : forall ts,
  resolve_bounds (map ren_pair ifs) (map ren_dtok ts) = resolve_bounds ifs ts.
Proof. induction ts as [|[|[s n]] ts IH]; simpl; auto. rewrite find_name_ren, IH. reflexivity. Qed.

Lemma resolve_domains_ren {A} (ifs : list (nat * A)) : forall ds,
  resolve_domains (map ren_pair ifs) (map (fun e => (f (fst e), map ren_dtok (snd e))) ds)
  = resolve_domains ifs ds.
Proof. induction ds as [|[n ts] ds IH]; simpl; auto. rewrite resolve_bounds_ren, IH. reflexivity. Qed.

Definition ren_parsed (p : parsed) : parsed :=
  mkParsed (p_desc p) (map f (p_mesh_names p)) (map f (p_iface_names p)) (map f (p_domain_names p)).


Lemma shorthand_ren (nms : list (nat * mesh)) :
  shorthand_ifaces (map ren_pair nms) = map ren_pair (shorthand_ifaces nms).
Proof.
  unfold shorthand_ifaces. rewrite map_length. generalize (seq 0 (length nms)).
  induction nms as [|[n a] r IH]; intros [|x s]; simpl; auto. rewrite IH. reflexivity.
Qed.

Lemma finish_parse_ren (meshes : list (nat * mesh)) ifaces ds :
  finish_parse (map ren_pair meshes) (option_map (map ren_pair) ifaces)
               (map (fun e => (f (fst e), map ren_dtok (snd e))) ds)
  = option_map ren_parsed (finish_parse meshes ifaces ds).
Proof.
  unfold finish_parse. destruct ifaces as [ifs|]; simpl; auto.
  rewrite resolve_domains_ren. destruct (resolve_domains ifs ds); simpl; auto.
  unfold ren_parsed; simpl. rewrite !map_map. simpl. reflexivity.
Qed.

(* renaming meshes, interfaces and domains by an injective map leaves the parsed description unchanged *)
Lemma parse_rename g : parse_geom (fun k => f (numname k)) (ren_file g) = option_map ren_parsed (parse_geom numname g).
Proof.
  unfold parse_geom.
  assert (M : mesh_section (ren_file g) = option_map (map ren_opt) (mesh_section g)).
  { unfold mesh_section, ren_file; simpl. destruct (gf_version g); reflexivity. }
  rewrite M. change (gf_version (ren_file g)) with (gf_version g).
  destruct (mesh_section g) as [ms|]; simpl.
  - rewrite name_entries_ren, name_entries_ren2.
    rewrite resolve_ifaces_ren.
    apply finish_parse_ren.
  - rewrite name_entries_ren, shorthand_ren.
    apply (finish_parse_ren _ (Some _)).
Qed.
End Rename.

(* a legacy 1.0 file and a 1.1 file that gives the meshes as unnamed interfaces parse to the same description *)
Lemma name_entries_unnamed {A} numname : forall (l : list (option nat * A)) k,
  Forall (fun e => fst e = None) l -> name_entries numname V11 k l = name_entries numname V10 k l.
Proof.
  induction l as [|[g a] l IH]; intros k H; simpl; auto. inversion H; subst. simpl in *. subst. rewrite IH; auto.
Qed.

Lemma legacy_same_as_shorthand numname ms ds : Forall (fun e : option nat * mesh => fst e = None) ms ->
  parse_geom numname (mkGFile V10 None ms [] ds) = parse_geom numname (mkGFile V11 None ms [] ds).
Proof. intros H. unfold parse_geom, mesh_section; simpl. rewrite name_entries_unnamed; auto. Qed.

(* an omitted sign means '+' *)
Definition plus_stok (t : sgn * nat) : sgn * nat := (match fst t with SNone => SPlus | s => s end, snd t).
Lemma resolve_meshes_plus {A} (ms : list (nat * A)) ts : resolve_meshes ms (map plus_stok ts) = resolve_meshes ms ts.
Proof. induction ts as [|[s n] ts IH]; simpl; auto. rewrite IH. destruct s; reflexivity. Qed.
Definition plus_dtok (t : dtok) : dtok := match t with DShared => DShared | DTok t => DTok (plus_stok t) end.
Lemma resolve_bounds_plus {A} (ifs : list (nat * A)) ts : resolve_bounds ifs (map plus_dtok ts) = resolve_bounds ifs ts.
Proof. induction ts as [|[|[s n]] ts IH]; simpl; auto. rewrite IH. destruct s; reflexivity. Qed.

(* whatever follows "shared" on a domain line is ignored *)
Lemma resolve_bounds_shared {A} (ifs : list (nat * A)) ts rest :
  (forall t, In t ts -> t <> DShared) -> resolve_bounds ifs (ts ++ DShared :: rest) = resolve_bounds ifs ts.
Proof.
  induction ts as [|[|[s n]] ts IH]; intros H; simpl; auto.
  rewrite IH; auto. intros t Ht. apply H. right; auto.
Qed.

(* section_name: the default name of an unnamed entry is its POSITION in the section (the (k+1)-th entry is called
   "k+1"), whatever the number of named entries before it *)
Lemma name_entries_position {A} numname v : forall (l : list (option nat * A)) k j g a,
  nth_error l j = Some (g, a) -> nth_error (name_entries numname v k l) j = Some (entry_name numname v (k + j) g, a).
Proof.
  induction l as [|[g0 a0] l IH]; intros k j g a H; destruct j as [|j]; simpl in *; try discriminate.
  - inversion H; subst. rewrite Nat.add_0_r. reflexivity.
  - rewrite (IH (S k) j g a H). f_equal. f_equal. f_equal. lia.
Qed.

Lemma unnamed_entry_named_by_position {A} numname (l : list (option nat * A)) j a :
  nth_error l j = Some (None, a) -> nth_error (name_entries numname V11 0 l) j = Some (numname j, a).
Proof. intros H. rewrite (name_entries_position numname V11 l 0 j None a H). reflexivity. Qed.
