(* Generic driver: each input line "<component> i1 i2 ..." -> one output line of integers. *)
open Model

let rec pos_of_int (n:int) : positive =
  if n = 1 then XH else if n land 1 = 0 then XO (pos_of_int (n lsr 1)) else XI (pos_of_int (n lsr 1))
let z_of_int (n:int) : z = if n = 0 then Z0 else if n > 0 then Zpos (pos_of_int n) else Zneg (pos_of_int (-n))
let rec int_of_pos (p:positive) : int = match p with XH -> 1 | XO q -> 2 * int_of_pos q | XI q -> 2 * int_of_pos q + 1
let int_of_z (x:z) : int = match x with Z0 -> 0 | Zpos p -> int_of_pos p | Zneg p -> - (int_of_pos p)

let table : (string * (z list -> z list)) list = [
  ("c14", run_c14);
  ("c13", run_c13);
]

let () =
  let buf = Buffer.create 4096 in
  (try
    while true do
      let line = input_line stdin in
      match String.split_on_char ' ' (String.trim line) with
      | [] | [""] -> print_newline ()
      | comp :: args ->
        let f = try List.assoc comp table with Not_found -> (fun _ -> [z_of_int (-2)]) in
        let ins = List.filter_map (fun s -> if s = "" then None else Some (z_of_int (int_of_string s))) args in
        let out = f ins in
        Buffer.clear buf;
        List.iteri (fun k x -> if k > 0 then Buffer.add_char buf ' '; Buffer.add_string buf (string_of_int (int_of_z x))) out;
        print_endline (Buffer.contents buf)
    done
  with End_of_file -> ())
