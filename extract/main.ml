(* Generic driver.  Input lines:
     <comp> i1 i2 ...                      integer wire  -> "o1 o2 ..."
     <comp> i1 i2 ... | x1 x2 ...          float wire (hex or decimal doubles) -> "o1 o2 ... | y1 y2 ..." (hex doubles, %h) *)
open Model
open Prelude
open Table

let split_bar toks =
  let rec go acc = function
    | [] -> (List.rev acc, None)
    | "|" :: rest -> (List.rev acc, Some rest)
    | t :: rest -> go (t :: acc) rest in
  go [] toks

let () =
  let buf = Buffer.create 65536 in
  (try
    while true do
      let line = input_line stdin in
      match List.filter (fun s -> s <> "") (String.split_on_char ' ' (String.trim line)) with
      | [] -> print_newline ()
      | comp :: args ->
        let (zs, fs) = split_bar args in
        let ins = List.map (fun s -> z_of_int (int_of_string s)) zs in
        Buffer.clear buf;
        let putz out = List.iteri (fun k x -> if k > 0 then Buffer.add_char buf ' '; Buffer.add_string buf (string_of_int (int_of_z x))) out in
        (match List.assoc_opt comp ftable with
         | Some f ->
           let fins = match fs with Some l -> List.map float_of_string l | None -> [] in
           let (zo, fo) = f ins fins in
           putz zo; Buffer.add_string buf " |";
           List.iter (fun x -> Buffer.add_char buf ' '; Buffer.add_string buf (Printf.sprintf "%h" x)) fo
         | None ->
           let f = try List.assoc comp ztable with Not_found -> (fun _ -> [z_of_int (-2)]) in
           putz (f ins));
        print_endline (Buffer.contents buf)
    done
  with End_of_file -> ())
