(* Conversions between OCaml ints/floats and the extracted Coq numbers, and the float instance of Ops. *)
open Model

let rec pos_of_int (n:int) : positive =
  if n = 1 then XH else if n land 1 = 0 then XO (pos_of_int (n lsr 1)) else XI (pos_of_int (n lsr 1))
let z_of_int (n:int) : z = if n = 0 then Z0 else if n > 0 then Zpos (pos_of_int n) else Zneg (pos_of_int (-n))
let rec int_of_pos (p:positive) : int = match p with XH -> 1 | XO q -> 2 * int_of_pos q | XI q -> 2 * int_of_pos q + 1
let int_of_z (x:z) : int = match x with Z0 -> 0 | Zpos p -> int_of_pos p | Zneg p -> - (int_of_pos p)
let rec float_of_pos (p:positive) : float = match p with XH -> 1.0 | XO q -> 2.0 *. float_of_pos q | XI q -> 2.0 *. float_of_pos q +. 1.0
let float_of_z (x:z) : float = match x with Z0 -> 0.0 | Zpos p -> float_of_pos p | Zneg p -> -. (float_of_pos p)

(* IEEE double instance: exactly the C operations the library uses *)
let float_ops : float ops = {
  f0 = 0.0; f1 = 1.0;
  fadd = ( +. ); fsub = ( -. ); fmul = ( *. ); fdiv = ( /. );
  fopp = (fun x -> -. x); fabs = Float.abs;
  fltb = (fun x y -> x < y); fleb = (fun x y -> x <= y); feqb = (fun x y -> x = y);
  fofZ = float_of_z;
  fsqrt = sqrt; fln = log; fatan2 = Float.atan2;
  fpi = 4.0 *. atan 1.0;
}
