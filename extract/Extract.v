(* Extraction of the executable models. ExtrOcamlBasic only (bool, option, unit, list,
   prod, sumbool ... -> OCaml natives); nat, positive, N, Z stay Coq inductives.
   No Extract Constant / Extract Inductive of our own. *)
Require Import ExtrOcamlBasic.
From OM Require Import Maths.RunC14 Maths.RunC13.
Extraction "model.ml" run_c14 run_c13.
