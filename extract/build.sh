#!/bin/sh
# Extract the executable models and build the OCaml driver (omm).  Offline, ExtrOcamlBasic only.
set -e
cd "$(dirname "$0")"
python3 gen_extract.py
timeout 900 coqc -Q ../coq OM Extract.v > extract.log 2>&1 || { tail -30 extract.log; exit 1; }
ocamlfind ocamlopt -O3 -w -a model.mli model.ml prelude.ml table.ml main.ml -o omm 2>/dev/null \
  || ocamlfind ocamlopt -w -a model.mli model.ml prelude.ml table.ml main.ml -o omm
