#!/usr/bin/env python3
"""Scratch build of /repo's *current working tree* (hook guard on), cached by content hash.

Build directory lives outside /repo and /verif: $OMVERIF_SCRATCH or /var/tmp/omverif/<hash>.
Nothing is reused unless the hash of every tracked/untracked source file matches.
"""
import hashlib, os, subprocess, sys, shutil, time, fcntl, glob

REPO = os.environ.get("OMVERIF_REPO", "/repo")
SCRATCH_ROOT = os.environ.get("OMVERIF_SCRATCH", "/var/tmp/omverif")
GUARD = "OPENMEEG_VERIF"
SRC_DIRS = ["OpenMEEG", "OpenMEEGMaths", "apps", "cmake", "wrapping", "documentation", "tests"]
TOP_FILES = ["CMakeLists.txt", "OpenMEEGConfigure.h.in"]

def _iter_files():
    for t in TOP_FILES:
        p = os.path.join(REPO, t)
        if os.path.isfile(p):
            yield p
    for d in SRC_DIRS:
        base = os.path.join(REPO, d)
        for root, dirs, files in os.walk(base):
            dirs.sort()
            if d == "tests" and root != base:
                # test data directories are irrelevant to the library build
                dirs[:] = []
            for f in sorted(files):
                if f.endswith((".h", ".H", ".hpp", ".cpp", ".C", ".c", ".txt", ".cmake", ".in", ".i", ".py")):
                    yield os.path.join(root, f)

def source_hash():
    h = hashlib.sha256()
    for p in _iter_files():
        h.update(p.encode()); h.update(b"\0")
        with open(p, "rb") as fh:
            h.update(fh.read())
        h.update(b"\0")
    return h.hexdigest()[:20]

def _run(cmd, log, **kw):
    with open(log, "ab") as lf:
        lf.write(("$ " + " ".join(cmd) + "\n").encode())
        lf.flush()
        return subprocess.run(cmd, stdout=lf, stderr=subprocess.STDOUT, **kw).returncode

def _sweep(keep):
    """Remove stale scratch builds: keep `keep`, everything used in the last 2 hours, and at most 40 builds."""
    try:
        ents = [os.path.join(SCRATCH_ROOT, e) for e in os.listdir(SCRATCH_ROOT) if e.startswith("b-")]
    except FileNotFoundError:
        return
    ents = [e for e in ents if os.path.basename(e) != "b-" + keep]
    ents.sort(key=lambda p: os.path.getmtime(p), reverse=True)
    now = time.time()
    for k, e in enumerate(ents):
        try:
            if k >= 40 or now - os.path.getmtime(e) > 7200:
                shutil.rmtree(e, ignore_errors=True)
        except OSError:
            pass

def ensure_build(apps=True, quiet=False):
    """Returns (builddir, hash). Raises RuntimeError with the log path when the tree does not build."""
    os.makedirs(SCRATCH_ROOT, exist_ok=True)
    h = source_hash()
    bdir = os.path.join(SCRATCH_ROOT, "b-" + h)
    lock = open(os.path.join(SCRATCH_ROOT, "lock"), "w")
    fcntl.flock(lock, fcntl.LOCK_EX)
    try:
        stamp = os.path.join(bdir, ".omverif_ok")
        if os.path.exists(stamp):
            os.utime(bdir, None)
            return bdir, h
        shutil.rmtree(bdir, ignore_errors=True)
        os.makedirs(bdir)
        log = os.path.join(bdir, "build.log")
        t0 = time.time()
        rc = _run(["cmake", "-G", "Ninja", "-S", REPO, "-B", bdir,
                   "-DCMAKE_BUILD_TYPE=RelWithDebInfo", "-DBUILD_TESTING=OFF",
                   "-DCPM_USE_LOCAL_PACKAGES=ON", "-DENABLE_PACKAGING=OFF", "-DBUILD_DOCUMENTATION=OFF",
                   "-DCMAKE_CXX_FLAGS=-Wno-error -D%s" % GUARD,
                   "-DCMAKE_C_FLAGS=-D%s" % GUARD], log)
        if rc != 0:
            raise RuntimeError("cmake configure failed, see %s" % log)
        rc = _run(["cmake", "--build", bdir, "-j", "16"], log)
        if rc != 0:
            raise RuntimeError("build of /repo working tree failed, see %s" % log)
        with open(stamp, "w") as fh:
            fh.write("%f\n" % (time.time() - t0))
        _sweep(h)
        if not quiet:
            print("[ombuild] built %s in %.1fs" % (bdir, time.time() - t0), file=sys.stderr)
        return bdir, h
    finally:
        fcntl.flock(lock, fcntl.LOCK_UN)
        lock.close()

def harness_flags(bdir):
    inc = ["-I%s/OpenMEEG/include" % REPO, "-I%s/OpenMEEGMaths/include" % REPO,
           "-I%s" % bdir, "-I%s/exports" % bdir, "-I%s/OpenMEEGMaths" % bdir, "-I%s/OpenMEEG" % bdir,
           "-isystem", "/usr/include/hdf5/serial"]
    defs = ["-D" + GUARD, "-DUSE_OMP", "-DOPENMP_RANGEFOR", "-DOPENMP_ITERATOR", "-DOPENMP_UNSIGNED", "-DUSE_PROGRESSBAR"]
    return inc, defs

def find_libs(bdir):
    libs = {}
    for name in ("OpenMEEGMaths", "OpenMEEG"):
        c = glob.glob(os.path.join(bdir, "**", "lib%s.so" % name), recursive=True)
        if not c:
            raise RuntimeError("lib%s.so not found in %s" % (name, bdir))
        libs[name] = c[0]
    return libs

def build_harness(bdir, src, out, extra=None, opt="-O1"):
    """Compile one harness translation unit against the scratch build."""
    inc, defs = harness_flags(bdir)
    libs = find_libs(bdir)
    ldirs = sorted({os.path.dirname(p) for p in libs.values()})
    cmd = ["g++", "-std=gnu++17", opt, "-g", "-fopenmp", "-w"] + defs + inc + [src, "-o", out]
    for d in ldirs:
        cmd += ["-L" + d, "-Wl,-rpath," + d]
    cmd += ["-lOpenMEEG", "-lOpenMEEGMaths", "-llapacke", "-lopenblas", "-lmatio"] + (extra or [])
    log = out + ".log"
    if os.path.exists(log): os.remove(log)
    rc = _run(cmd, log)
    if rc != 0:
        raise RuntimeError("harness build failed, see %s" % log)
    return out

if __name__ == "__main__":
    b, h = ensure_build()
    print(b)
