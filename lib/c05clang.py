"""C05: clang/libomp build of the library sources + the C05 harness (the property's second observation point).
Objects are cached inside the scratch build directory of the g++ build (which is keyed by the hash of the sources), so
a source change rebuilds everything and an unchanged tree reuses it.  Two binaries: `h_c05_clang` (plain clang
configuration) and `h_c05_clang_apple` (operators.cpp alone compiled with -D__APPLE__: the configuration in which the
pinned source drops the omp critical of operatorDipolePotDer -- used to replay that refutation on real code)."""
import os, glob, shutil, subprocess, time
from concurrent.futures import ThreadPoolExecutor
import ombuild

def available():
    return shutil.which("clang++") is not None and bool(glob.glob("/usr/lib/llvm-*/lib/libomp.so*") + glob.glob("/usr/lib/x86_64-linux-gnu/libomp.so*"))

def _compile(src, obj, extra, inc, defs, log):
    if os.path.exists(obj) and os.path.getmtime(obj) >= os.path.getmtime(src): return 0
    cmd = ["timeout", "900", "clang++", "-std=gnu++17", "-O2", "-g", "-DNDEBUG", "-fopenmp=libomp", "-fPIC", "-w", "-x", "c++"] + defs + extra + inc + ["-c", src, "-o", obj]
    p = subprocess.run(cmd, stdout=subprocess.PIPE, stderr=subprocess.STDOUT)
    if p.returncode != 0:
        with open(log, "ab") as fh: fh.write((" ".join(cmd) + "\n").encode() + p.stdout)
    return p.returncode

def build(bdir, harness_src, jobs=6):
    """returns (plain_binary, apple_binary, seconds) ; raises RuntimeError with the log path"""
    t0 = time.time()
    R = ombuild.REPO
    d = os.path.join(bdir, "c05clang"); os.makedirs(d, exist_ok=True)
    log = os.path.join(d, "build.log")
    if os.path.exists(log): os.remove(log)
    inc, defs = ombuild.harness_flags(bdir)
    srcs = sorted(glob.glob(R + "/OpenMEEGMaths/src/*.cpp")) + sorted(glob.glob(R + "/OpenMEEGMaths/src/*.C")) + sorted(glob.glob(R + "/OpenMEEG/src/*.cpp"))
    jobs_l = [(s, os.path.join(d, os.path.basename(s) + ".o"), []) for s in srcs]
    jobs_l.append((os.path.join(R, "OpenMEEG", "src", "operators.cpp"), os.path.join(d, "operators.cpp.apple.o"), ["-D__APPLE__"]))
    jobs_l.append((harness_src, os.path.join(d, "h_c05.o"), ["-DC05_STATIC_BUILD"]))
    hdeps = [os.path.join(os.path.dirname(harness_src), "wire.h")]
    ho = os.path.join(d, "h_c05.o")
    if os.path.exists(ho) and os.path.getmtime(ho) < max(os.path.getmtime(x) for x in hdeps): os.remove(ho)
    with ThreadPoolExecutor(max_workers=jobs) as ex:
        rcs = list(ex.map(lambda j: _compile(j[0], j[1], j[2], inc, defs, log), jobs_l))
    if any(rcs): raise RuntimeError("clang/libomp build failed, see %s" % log)
    objs = [o for s, o, e in jobs_l if not e]
    outs = []
    for tag, repl in (("h_c05_clang", None), ("h_c05_clang_apple", os.path.join(d, "operators.cpp.apple.o"))):
        out = os.path.join(bdir, tag)
        use = [repl if (repl and o.endswith("/operators.cpp.o")) else o for o in objs] + [ho]
        if not os.path.exists(out) or os.path.getmtime(out) < max(os.path.getmtime(o) for o in use):
            cmd = ["clang++", "-fopenmp=libomp", "-g"] + use + ["-o", out, "-llapacke", "-lopenblas", "-lmatio", "-lhdf5_serial", "-ldl", "-rdynamic"]
            p = subprocess.run(cmd, stdout=subprocess.PIPE, stderr=subprocess.STDOUT)
            if p.returncode != 0:
                with open(log, "ab") as fh: fh.write((" ".join(cmd) + "\n").encode() + p.stdout)
                raise RuntimeError("clang/libomp link failed, see %s" % log)
        outs.append(out)
    return outs[0], outs[1], time.time() - t0
