"""Independent Python re-implementation of the analytic layered-sphere oracle (same formulas as coq/Geom/Sphere.v),
used by checks/c01.py only to cross-check the *extracted* Coq oracle (driver / extraction / wire sanity) and the
closed forms against the series.  The oracle of record is the extracted Coq function, not this file."""
import math

def dot(u, v): return u[0] * v[0] + u[1] * v[1] + u[2] * v[2]
def cross(u, v): return (u[1] * v[2] - u[2] * v[1], u[2] * v[0] - u[0] * v[2], u[0] * v[1] - u[1] * v[0])
def sub(u, v): return (u[0] - v[0], u[1] - v[1], u[2] - v[2])
def add(u, v): return (u[0] + v[0], u[1] + v[1], u[2] + v[2])
def scal(a, u): return (a * u[0], a * u[1], a * u[2])
def norm(u): return math.sqrt(dot(u, u))

def layer_beta(radii, sigmas, n):
    """beta_n of the innermost layer: outside-in recursion over the interfaces, lengths in units of the outer radius"""
    R = radii[-1]; a, b = 1.0, n / (n + 1.0)
    for k in range(len(radii) - 2, -1, -1):
        s = sigmas[k + 1] / sigmas[k]; rho = (radii[k] / R) ** (2 * n + 1)
        a, b = (((n + 1) + n * s) * a + (n + 1) * (1 - s) * b / rho) / (2 * n + 1), (n * (1 - s) * a * rho + (n + (n + 1) * s) * b) / (2 * n + 1)
    return b

def sphere_pot(radii, sigmas, q, r0, r, nterms):
    R = radii[-1]; nr = norm(r); n0 = norm(r0)
    rh = scal(1 / nr, r)
    if n0 == 0.0:
        return 3.0 / (2.0 * layer_beta(radii, sigmas, 1)) * dot(q, rh) / (4 * math.pi * sigmas[0] * R * R)
    r0h = scal(1 / n0, r0)
    c = dot(rh, r0h); qr0 = dot(q, r0h); qr = dot(q, rh); u = n0 / R
    pm, p, d = 1.0, c, 1.0   # P_{n-1}, P_n, P_n'
    up = 1.0; tot = 0.0
    for n in range(1, nterms + 1):
        beta = layer_beta(radii, sigmas, n)
        tot += up * (2 * n + 1) / ((n + 1) * beta) * (n * qr0 * p + (qr - c * qr0) * d)
        pn = ((2 * n + 1) * c * p - n * pm) / (n + 1); d = c * d + (n + 1) * p; pm, p = p, pn; up *= u
    return tot / (4 * math.pi * sigmas[0] * R * R)

def homog_closed(R, sigma, q, r0, r):
    """homogeneous sphere, r on the surface |r| = R"""
    nr = norm(r); r = scal(R / nr, r)
    dv = sub(r, r0); d = norm(dv)
    den = R * R - dot(r, r0) + R * d
    return (2 * dot(q, dv) / d ** 3 + (dot(q, r) / R + dot(q, dv) / d) / den) / (4 * math.pi * sigma)

def infinite_pot(sigma, q, r0, r):
    dv = sub(r, r0); d = norm(dv)
    return dot(q, dv) / (4 * math.pi * sigma * d ** 3)

def sarvas(q, r0, r):
    """B in units of mu0/(4 pi)"""
    av = sub(r, r0); a = norm(av); rn = norm(r)
    F = a * (rn * a + rn * rn - dot(r0, r))
    ar = dot(av, r)
    gF = sub(scal(a * a / rn + ar / a + 2 * a + 2 * rn, r), scal(a + 2 * rn + ar / a, r0))
    qr0 = cross(q, r0)
    return scal(1 / (F * F), sub(scal(F, qr0), scal(dot(qr0, r), gF)))

def biot_savart_primary(q, r0, r):
    av = sub(r, r0); a = norm(av)
    return scal(1 / a ** 3, cross(q, av))

def nterms_for(ecc, tol=1e-14, cap=400):
    n = 1
    while n < cap and (n + 1) * ecc ** n > tol: n += 1
    return n
