"""Generators for the kernel correspondence (C16; reusable by C02/C03): random triangles with aspect ratio up
to 1:20 in any orientation, evaluation points kept >= 5 % of the triangle size off the plane or in-plane off
the triangle, dipoles off the surface, vertex fans, exact rational integration of polynomials on a triangle."""
import math
from fractions import Fraction
from math import factorial

def sub(a, b): return (a[0] - b[0], a[1] - b[1], a[2] - b[2])
def add(a, b): return (a[0] + b[0], a[1] + b[1], a[2] + b[2])
def mul(s, a): return (s * a[0], s * a[1], s * a[2])
def dot(a, b): return a[0] * b[0] + a[1] * b[1] + a[2] * b[2]
def cross(a, b): return (a[1] * b[2] - a[2] * b[1], a[2] * b[0] - a[0] * b[2], a[0] * b[1] - a[1] * b[0])
def norm(a): return math.sqrt(dot(a, a))

def random_frame(rng):
    """random rotation matrix (columns e1,e2,e3) from a random unit quaternion"""
    while True:
        q = [rng.gauss(0, 1) for _ in range(4)]
        n = math.sqrt(sum(x * x for x in q))
        if n > 1e-3: break
    w, x, y, z = [c / n for c in q]
    R = [[1 - 2 * (y * y + z * z), 2 * (x * y - z * w), 2 * (x * z + y * w)],
         [2 * (x * y + z * w), 1 - 2 * (x * x + z * z), 2 * (y * z - x * w)],
         [2 * (x * z - y * w), 2 * (y * z + x * w), 1 - 2 * (x * x + y * y)]]
    return [tuple(R[i][j] for i in range(3)) for j in range(3)]

def triangle(rng, max_aspect=20.0):
    """-> (v0,v1,v2, info): base L in [0.3,3], height L/aspect, apex anywhere over [-0.3,1.3] L (acute and obtuse),
    random orientation, translation in [-1,1]^3, random vertex order/winding"""
    L = math.exp(rng.uniform(math.log(0.3), math.log(3.0)))
    asp = math.exp(rng.uniform(0.0, math.log(max_aspect)))
    u = rng.uniform(-0.3, 1.3)
    e1, e2, e3 = random_frame(rng)
    c = (rng.uniform(-1, 1), rng.uniform(-1, 1), rng.uniform(-1, 1))
    p = [c, add(c, mul(L, e1)), add(c, add(mul(u * L, e1), mul(L / asp, e2)))]
    rng.shuffle(p)
    return p[0], p[1], p[2], dict(L=L, aspect=asp, apex=u)

def tri_size(t):
    return max(norm(sub(t[1], t[0])), norm(sub(t[2], t[1])), norm(sub(t[0], t[2])))

def tri_normal(t):
    n = cross(sub(t[1], t[0]), sub(t[2], t[0])); l = norm(n)
    return mul(1.0 / l, n)

def dist_point_segment(p, a, b):
    ab = sub(b, a); t = dot(sub(p, a), ab) / dot(ab, ab); t = max(0.0, min(1.0, t))
    return norm(sub(p, add(a, mul(t, ab))))

def dist_point_triangle(p, t):
    n = tri_normal(t); h = dot(sub(p, t[0]), n); q = sub(p, mul(h, n))
    # inside test by barycentric signs
    def s(a, b): return dot(cross(sub(b, a), sub(q, a)), n)
    if s(t[0], t[1]) >= 0 and s(t[1], t[2]) >= 0 and s(t[2], t[0]) >= 0: return abs(h)
    return min(dist_point_segment(p, t[0], t[1]), dist_point_segment(p, t[1], t[2]), dist_point_segment(p, t[2], t[0]))

def point_for(rng, t, margin=0.05, perturb=True):
    """evaluation point: 'off' = >= margin*size off the plane (over or near the triangle), 'inplane' = in the plane,
    >= margin*size away from the triangle, 'far' = a few sizes away.  -> (point, kind)"""
    size = tri_size(t); n = tri_normal(t)
    kind = rng.choice(["off", "off", "off", "inplane", "far", "edgeline"])
    for _ in range(200):
        l1, l2 = rng.uniform(-0.6, 1.6), rng.uniform(-0.6, 1.6)
        base = add(t[0], add(mul(l1, sub(t[1], t[0])), mul(l2, sub(t[2], t[0]))))
        if kind == "off":
            h = math.exp(rng.uniform(math.log(margin * 1.02), math.log(2.0))) * size * rng.choice([-1, 1])
            p = add(base, mul(h, n))
        elif kind == "inplane":
            p = base
        elif kind == "edgeline":
            # on the line carrying an edge, beyond its end points (the log-argument fallback region), slightly off or not
            k = rng.randrange(3); a, b = t[k], t[(k + 1) % 3]
            s = rng.choice([rng.uniform(-1.5, -margin * 1.5), rng.uniform(1 + margin * 1.5, 2.5)])
            p = add(a, mul(s, sub(b, a)))
            # (outside the property's domain: neither >= 5 % off the plane nor in it -- correspondence only)
            if perturb and rng.random() < 0.5: p = add(p, mul(rng.uniform(-1e-9, 1e-9) * size, n))
        else:
            p = add(base, mul(rng.uniform(1.0, 4.0) * size * rng.choice([-1, 1]), random_frame(rng)[0]))
        if dist_point_triangle(p, t) >= margin * size:
            return p, kind
    return add(t[0], mul(3 * size, n)), "off"

def dipole_for(rng, t, margin=0.05):
    p, _ = point_for(rng, t, margin)
    while abs(dot(sub(p, t[0]), tri_normal(t))) < margin * tri_size(t):      # off the surface
        p, _ = point_for(rng, t, margin)
    q = tuple(rng.uniform(-1, 1) for _ in range(3))
    return p, q

def fan(rng, n=None, closed=None):
    """vertex V with n triangles (V,A_k,A_{k+1}) around it, not planar -> (V, [(A,B,rot)])"""
    n = n or rng.randint(3, 7)
    e1, e2, e3 = random_frame(rng)
    c = (rng.uniform(-1, 1), rng.uniform(-1, 1), rng.uniform(-1, 1))
    V = add(c, mul(rng.uniform(0.1, 0.5), e3))
    ring = []
    if closed is None: closed = rng.random() < 0.7
    for k in range(n + (0 if closed else 1)):
        a = 2 * math.pi * k / (n + (0 if closed else 1)) + rng.uniform(-0.2, 0.2)
        r = rng.uniform(0.4, 1.5)
        ring.append(add(c, add(add(mul(r * math.cos(a), e1), mul(r * math.sin(a), e2)), mul(rng.uniform(-0.2, 0.2), e3))))
    tris = []
    for k in range(n):
        A = ring[k]; B = ring[(k + 1) % len(ring)]
        tris.append((A, B, rng.randrange(3)))
    return V, tris

def fan_point(rng, V, tris, margin=0.05):
    for _ in range(500):
        p = add(V, tuple(rng.uniform(-2, 2) for _ in range(3)))
        if all(dist_point_triangle(p, (V, A, B)) >= margin * tri_size((V, A, B)) for A, B, _ in tris):
            return p
    return add(V, (5.0, 5.0, 5.0))

# ---------------------------------------------------------------- exact integration of polynomials
def dirichlet(a, b, c):
    """integral over the reference triangle {l>=0, l0+l1+l2=1} (area 1/2) of l0^a l1^b l2^c"""
    return Fraction(factorial(a) * factorial(b) * factorial(c), factorial(a + b + c + 2))

def _pmul(p, q):
    r = {}
    for (i, j), x in p.items():
        for (k, l), y in q.items():
            r[(i + k, j + l)] = r.get((i + k, j + l), 0) + x * y
    return r

def _ppow(p, n):
    r = {(0, 0): Fraction(1)}
    for _ in range(n): r = _pmul(r, p)
    return r

def exact_poly_integral_over_area2(mon, t):
    """mon = [(coef, a, b, c)] polynomial in the Cartesian coordinates; t = three vertices (floats, taken exactly).
    Returns (I, S) as Fractions with  int_T p dS = area2(T) * I  and S = the same with every monomial's
    contribution taken in absolute value (a magnitude scale): substitute x = P0 + l1 (P1-P0) + l2 (P2-P0),
    expand in (l1,l2), integrate each l1^i l2^j by the Dirichlet formula i! j!/(i+j+2)!."""
    P = [[Fraction(x) for x in v] for v in t]
    lin = [{(0, 0): P[0][k], (1, 0): P[1][k] - P[0][k], (0, 1): P[2][k] - P[0][k]} for k in range(3)]
    tot = Fraction(0); mag = Fraction(0)
    for coef, a, b, c in mon:
        p = _pmul(_pmul(_ppow(lin[0], a), _ppow(lin[1], b)), _ppow(lin[2], c))
        v = sum(x * dirichlet(0, i, j) for (i, j), x in p.items())
        tot += Fraction(coef) * v
        mag += abs(Fraction(coef)) * sum(abs(x) * dirichlet(0, i, j) for (i, j), x in p.items())
    return tot, mag

# ---------------------------------------------------------------- evaluation points on the lines carrying the edges
def _ulp(x):
    return math.ulp(abs(x)) if x != 0 else 5e-324

def dyadic_triangle(rng):
    """vertices with small dyadic coordinates (k/8, |k| <= 24), not degenerate: affine combinations with dyadic
    parameters are then exact in doubles"""
    while True:
        t = [tuple(rng.randint(-24, 24) / 8.0 for _ in range(3)) for _ in range(3)]
        n = cross(sub(t[1], t[0]), sub(t[2], t[0]))
        if dot(n, n) > 0.05: return t

def edge_line_points(rng, t, dyadic=False, margin=0.05):
    """[(point, kind)]: for each edge (a,b) of t, in both orientations, points a - s (b-a) on the extension beyond a
    (s in 0.05..3 edge lengths, and s = 1: the mirror image of b in a), exactly collinear ('line', computed with the
    rounding of the generic doubles, or exact when dyadic) and collinear-with-edge but 1 ulp .. 1e-12 off the line
    ('nearline').  Only points at least margin*size away from the triangle are kept."""
    size = tri_size(t); out = []
    nrm = tri_normal(t)
    for k in range(3):
        for (a, b) in ((t[k], t[(k + 1) % 3]), (t[(k + 1) % 3], t[k])):
            e = sub(b, a)
            ss = [1.0, rng.choice([0.0625, 0.125, 0.25, 0.5, 2.0, 3.0]) if dyadic else math.exp(rng.uniform(math.log(0.05), math.log(3.0)))]
            for s in ss:
                p = sub(a, mul(s, e))
                if dist_point_triangle(p, t) < margin * size: continue
                out.append((p, "line"))
                # slightly off the line: in the plane (perpendicular to the edge) or along the normal
                d = cross(nrm, e); dl = norm(d)
                if dl > 0:
                    d = mul(1.0 / dl, d)
                    off = rng.choice([1.0, 2.0, 8.0]) * max(_ulp(c) for c in p) if rng.random() < 0.5 else math.exp(rng.uniform(math.log(1e-16), math.log(1e-12))) * size
                    out.append((add(p, mul(off * rng.choice([-1, 1]), d if rng.random() < 0.7 else nrm)), "nearline"))
    return out
