"""Case generators shared by the maths checks (all randomness from the Check's rng)."""
def rint(rng, lo=-9, hi=9):
    return rng.randint(lo, hi)

def shape(rng, maxn):
    """sizes aimed at boundaries: 0,1,2 and a few generic ones"""
    c = rng.random()
    if c < 0.12: return 0
    if c < 0.30: return 1
    if c < 0.45: return 2
    return rng.randint(3, maxn)

def sparse(rng, nl, nc, density=None):
    """wire encoding of a sparse matrix: nl nc nnz (i j v)*; may repeat keys (last write wins), may store zeros"""
    if nl == 0 or nc == 0:
        return [nl, nc, 0]
    if density is None:
        density = rng.choice([0.0, 0.05, 0.2, 0.5, 1.0])
    es = []
    for i in range(nl):
        for j in range(nc):
            if rng.random() < density:
                es.append((i, j, rint(rng) if rng.random() > 0.1 else 0))
    rng.shuffle(es)
    if es and rng.random() < 0.3:
        i, j, _ = rng.choice(es); es.append((i, j, rint(rng)))
    w = [nl, nc, len(es)]
    for e in es: w += list(e)
    return w

def vec(rng, n):
    return [n] + [rint(rng) for _ in range(n)]

def dense(rng, nl, nc):
    return [nl, nc] + [rint(rng) for _ in range(nl * nc)]

def sym(rng, n):
    return [n] + [rint(rng) for _ in range(n * (n + 1) // 2)]
