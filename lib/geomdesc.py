"""Descriptions of head models at the level the C11/C06 models see them, the geometric oracles that are handed to
the Gallina model as data, re-descriptions, and .geom/.cond writers for every concrete syntax the reader accepts.

A model is the dict of lib/models.py.  The *abstract description* is what coq/Geom/GeomModel.v takes:
  meshes    = [(point ids of the file vertices, triangles over file-local numbers)]
  interfaces= [[(sign, mesh number)]]        names resolved the way GeomFile.h does (first mesh with that name)
  domains   = [[(inside?, interface number)]]  (std::map::insert keeps the first interface of a name)
  isign     = per interface: sign of the solid angle of the signed union at an interior point (+1: 4pi, the
              reader reverses the interface; -1: -4pi; 0: neither = not a closed coherently oriented surface)
  probes    = per probe point, per interface: inside?
"""
import math, os, struct

# ------------------------------------------------------------------ exact helpers
def point_ids(meshes, table=None):
    """identity of a coordinate triple under operator== on doubles (so -0.0 == 0.0)"""
    table = {} if table is None else table
    out = []
    for name, vs, ts in meshes:
        ids = []
        for v in vs:
            k = tuple(float(c) + 0.0 for c in v)       # -0.0 + 0.0 = 0.0
            if k not in table: table[k] = len(table)
            ids.append(table[k])
        out.append(ids)
    return out

def solid_angle(p, a, b, c):
    """van Oosterom-Strackee / De Munck, same expression as Vect3::solid_angle (including its 1e-10 cut)"""
    y1 = (a[0] - p[0], a[1] - p[1], a[2] - p[2]); y2 = (b[0] - p[0], b[1] - p[1], b[2] - p[2]); y3 = (c[0] - p[0], c[1] - p[1], c[2] - p[2])
    n1 = math.sqrt(y1[0] ** 2 + y1[1] ** 2 + y1[2] ** 2); n2 = math.sqrt(y2[0] ** 2 + y2[1] ** 2 + y2[2] ** 2); n3 = math.sqrt(y3[0] ** 2 + y3[1] ** 2 + y3[2] ** 2)
    cr = (y2[1] * y3[2] - y2[2] * y3[1], y2[2] * y3[0] - y2[0] * y3[2], y2[0] * y3[1] - y2[1] * y3[0])
    d = y1[0] * cr[0] + y1[1] * cr[1] + y1[2] * cr[2]
    dot = lambda u, v: u[0] * v[0] + u[1] * v[1] + u[2] * v[2]
    if abs(d) < 1e-10: return 0.0
    return 2 * math.atan2(d, n1 * n2 * n3 + n1 * dot(y2, y3) + n2 * dot(y3, y1) + n3 * dot(y1, y2))

def mesh_solid_angle(p, vs, ts):
    return sum(solid_angle(p, vs[a], vs[b], vs[c]) for a, b, c in ts)

def signed_volume6(vs, ts):
    s = 0.0
    for a, b, c in ts:
        A, B, C = vs[a], vs[b], vs[c]
        s += A[0] * (B[1] * C[2] - B[2] * C[1]) - A[1] * (B[0] * C[2] - B[2] * C[0]) + A[2] * (B[0] * C[1] - B[1] * C[0])
    return s

def local_fix(ts):
    """what Mesh::correct_local_orientation leaves behind on a connected orientable mesh: every triangle wound
    consistently with the first one (used by the oracle only; the Gallina model has its own flood fill)"""
    if not ts: return list(ts)
    from collections import defaultdict
    byedge = defaultdict(list)
    for k, t in enumerate(ts):
        for i in range(3):
            a, b = t[i], t[(i + 1) % 3]
            byedge[(min(a, b), max(a, b))].append(k)
    out = [tuple(t) for t in ts]; seen = {0}; stack = [0]
    while stack:
        k = stack.pop(); t = out[k]
        for i in range(3):
            a, b = t[i], t[(i + 1) % 3]
            for j in byedge[(min(a, b), max(a, b))]:
                if j in seen: continue
                u = out[j]
                de = [(u[i2], u[(i2 + 1) % 3]) for i2 in range(3)]
                if (a, b) in de: out[j] = (u[1], u[0], u[2])
                seen.add(j); stack.append(j)
    return out

def is_consistent(ts):
    cnt = {}
    for t in ts:
        for i in range(3):
            a, b = t[i], t[(i + 1) % 3]
            if (a, b) in cnt: return False
            cnt[(a, b)] = 1
    return True

# ------------------------------------------------------------------ abstract description + oracles
def resolve(m):
    """names -> numbers the way GeomFile.h does; an unknown name maps to a number past the end (load fails)"""
    mnames = [n for n, _, _ in m["meshes"]]
    inames = [n for n, _ in m["interfaces"]]
    def first(lst, x): return lst.index(x) if x in lst else len(lst) + 7
    ifs = [[(s, first(mnames, mn)) for s, mn in ms] for _, ms in m["interfaces"]]
    doms = [[(1 if s < 0 else 0, first(inames, i)) for s, i in bs] for _, bs in m["domains"]]
    return ifs, doms

def interface_sign(m, ifc, ids, fixed_tris):
    """what Interface::is_mesh_orientations_coherent sees: the signed sum of the solid angles of the interface's
    meshes (after the local repair) at the centre of the bounding box of their vertices, classified as +4pi (+1: the
    reader reverses the interface), -4pi (-1) or neither (0: 'not closed', the load fails).  For a closed coherently
    oriented surface whose box centre is interior this is the orientation sign (Gauss' law); counter-clockwise seen
    from outside gives +4pi with Vect3::solid_angle (measured on the pinned tree)."""
    lo = [1e300] * 3; hi = [-1e300] * 3
    for s, k in ifc:
        if k >= len(m["meshes"]): return 0
        for v in m["meshes"][k][1]:
            for q in range(3): lo[q] = min(lo[q], v[q]); hi[q] = max(hi[q], v[q])
    if lo[0] > hi[0]: return 0
    c = tuple(0.5 * (lo[q] + hi[q]) for q in range(3))
    tot = 0.0
    for s, k in ifc:
        tot += s * mesh_solid_angle(c, m["meshes"][k][1], fixed_tris[k])
    if abs(tot - 4 * math.pi) < 1e-9: return 1
    if abs(tot + 4 * math.pi) < 1e-9: return -1
    if abs(tot) < 1e-6:
        # the reader draws random points of the box until the angle is significant.  For one connected closed coherently
        # oriented surface every such point is interior and gives the orientation sign; anything else (several
        # components, open or incoherent unions) is not a function of the input: 2 = "do not use this case"
        if closed_connected(m, ifc, ids, fixed_tris):
            vol = sum(s * signed_volume6(m["meshes"][k][1], fixed_tris[k]) for s, k in ifc)
            if abs(vol) > 1e-9: return 1 if vol > 0 else -1
        return 2
    return 0

def closed_connected(m, ifc, ids, fixed_tris):
    """the signed union is one connected surface in which every directed edge is cancelled by its opposite"""
    edges = {}; tris = []
    for s, k in ifc:
        for t in fixed_tris[k]:
            tt = t if s > 0 else (t[1], t[0], t[2])
            pt = tuple(ids[k][a] for a in tt); tris.append(pt)
            for i in range(3):
                e = (pt[i], pt[(i + 1) % 3]); edges[e] = edges.get(e, 0) + 1
    if not tris: return False
    if any(c != 1 or edges.get((b, a), 0) != 1 for (a, b), c in edges.items()): return False
    # connectivity over shared vertices
    parent = {}
    def find(x):
        while parent.setdefault(x, x) != x:
            parent[x] = parent[parent[x]]; x = parent[x]
        return x
    for a, b, c in tris:
        ra, rb, rc = find(a), find(b), find(c); parent[rb] = ra; parent[rc] = ra
    return len({find(x) for t in tris for x in t}) == 1

def inside_interface(m, ifc, p, fixed=None):
    """geometric truth of Interface::contains(p): |winding| is 1 for a closed surface whatever its orientation
    (locally inconsistent meshes are made consistent first, as a surface has no insideness otherwise)"""
    tot = 0.0
    for s, k in ifc:
        name, vs, ts = m["meshes"][k]
        if fixed is not None: ts = fixed[k]
        elif not is_consistent(ts): ts = local_fix(ts)
        tot += s * mesh_solid_angle(p, vs, ts)
    return abs(tot) > 2 * math.pi

def abstract(m, probes=(), old=False):
    """the geometric oracles of a description whose names are already those the reader will see: solid-angle sign
    per interface, insideness per probe and interface (+ the resolved description used to compute them)"""
    ids = point_ids(m["meshes"])
    ifs, doms = resolve(m)
    fixed = [local_fix(ts) if not is_consistent(ts) else list(ts) for _, _, ts in m["meshes"]]
    ok_if = [all(k < len(m["meshes"]) for _, k in ifc) for ifc in ifs]
    def _isign(ifc):
        try: return interface_sign(m, ifc, ids, fixed)
        except IndexError: return 0          # damaged mesh: the load fails before the interface is looked at
    isign = [_isign(ifc) if ok else 0 for ifc, ok in zip(ifs, ok_if)]
    pw = [len(probes)]
    for p in probes:
        pw += [1 if (ok and inside_interface(m, ifc, p, fixed)) else 0 for ifc, ok in zip(ifs, ok_if)]
    return dict(isign=isign, ifs=ifs, doms=doms, unstable=(2 in isign), probe_wire=pw)

# ------------------------------------------------------------------ extra topology
def bowl(level=1, r_in=0.8, r_out=1.0):
    """closed genus-0 surface whose bounding-box centre is OUTSIDE the enclosed volume: thick hemispherical shell z>=0
    (outer cap, inner cap reversed, flat rim at z=0)"""
    import models
    v0, t0 = models.octasphere(level)
    vn, tn = models.submesh(v0, t0, lambda t: all(v0[a][2] >= -1e-12 for a in t))
    n = len(vn)
    verts = [(r_out * x, r_out * y, r_out * max(z, 0.0)) for x, y, z in vn] + [(r_in * x, r_in * y, r_in * max(z, 0.0)) for x, y, z in vn]
    tris = [tuple(t) for t in tn] + [(n + b, n + a, n + c) for a, b, c in tn]
    ring = sorted([k for k, (x, y, z) in enumerate(vn) if abs(z) < 1e-12], key=lambda k: math.atan2(vn[k][1], vn[k][0]))
    for i in range(len(ring)):
        a, b = ring[i], ring[(i + 1) % len(ring)]
        tris += [(b, a, n + a), (b, n + a, n + b)]
    return verts, tris

def bowl_model(level=1, sigma=1.0, inside_sphere=False):
    """a bowl-shaped conductor in air, optionally enclosed in a sphere of radius 1.5 (then the bowl is an inclusion)"""
    import models
    vs, ts = bowl(level)
    m = dict(meshes=[("bowl", vs, ts)], interfaces=[("Bowl", [(+1, "bowl")])], domains=[("Wall", [(-1, "Bowl")])], cond={"Wall": sigma},
             info=dict(kind="bowl", centre=(0, 0, 0), outer_radius=1.0, topology="bowl"))
    if inside_sphere:
        vi, ti = models.icosphere(1)
        m["meshes"].append(("outer", models.transform(vi, 1.5), list(ti))); m["interfaces"].append(("Outer", [(+1, "outer")]))
        m["domains"] += [("Body", [(-1, "Outer"), (+1, "Bowl")]), ("Air", [(+1, "Outer")])]; m["cond"].update(Body=0.33, Air=0.0)
    else:
        m["domains"].append(("Air", [(+1, "Bowl")])); m["cond"]["Air"] = 0.0
    return m

def separate_conductors(rng, k=2, level=0):
    """k disjoint conductors (spheres, each with 1 or 2 layers) in the same air: the outermost domain is bounded by
    k interfaces.  Returns the model; info["objects"] = [(centre, inner radius)] for probes inside every object"""
    import models
    vi, ti = models.icosphere(level)
    centres = [(-1.6, 0.0, 0.0), (1.6, 0.3, 0.0), (0.0, 2.9, 0.4)][:k]
    meshes = []; interfaces = []; domains = []; cond = {}; air = []; objs = []
    for j, c in enumerate(centres):
        nl = rng.randint(1, 2); radii = [1.0] if nl == 1 else [0.6, 1.0]
        prev = None
        for q, r in enumerate(radii):
            mn = "o%dm%d" % (j, q); inn = "O%dS%d" % (j, q)
            meshes.append((mn, models.transform(vi, r, c), list(ti))); interfaces.append((inn, [(+1, mn)]))
            dn = "O%dL%d" % (j, q)
            domains.append((dn, [(-1, inn)] + ([(+1, prev)] if prev else []))); cond[dn] = rng.choice([1.0, 0.33, 0.0125])
            prev = inn
        air.append((+1, prev)); objs.append((c, radii[0]))
    rng.shuffle(air)
    pos = rng.randrange(len(domains) + 1)
    domains.insert(pos, ("Air", air)); cond["Air"] = 0.0
    return dict(meshes=meshes, interfaces=interfaces, domains=domains, cond=cond,
                info=dict(kind="separate", topology="separate", objects=objs, centre=(0, 0, 0), outer_radius=4.0))

def capped_nested(radii, sigmas, level=1, capped=None, rng=None):
    """nested spheres in which some interfaces are stored as TWO meshes (north and south caps sharing the equator ring):
    the two caps of an interface separate the same two domains.  capped = indices of the interfaces stored that way"""
    import models
    n = len(radii); vo, to = models.octasphere(level); vi, ti = models.icosphere(max(level - 1, 0) if level > 1 else 1)
    capped = set(range(n)) if capped is None else set(capped)
    eps = 1e-12
    vn, tn = models.submesh(vo, to, lambda t: all(vo[a][2] >= -eps for a in t))
    vs_, ts_ = models.submesh(vo, to, lambda t: all(vo[a][2] <= eps for a in t))
    meshes = []; interfaces = []; domains = []; cond = {}
    for k, r in enumerate(radii):
        if k in capped:
            parts = [("n%d" % k, models.transform(vn, r), list(tn)), ("s%d" % k, models.transform(vs_, r), list(ts_))]
            if rng is not None and rng.random() < 0.5: parts.reverse()
            meshes += parts; interfaces.append(("I%d" % k, [(+1, parts[0][0]), (+1, parts[1][0])]))
        else:
            meshes.append(("m%d" % k, models.transform(vi, r), list(ti))); interfaces.append(("I%d" % k, [(+1, "m%d" % k)]))
        b = [(-1, "I%d" % k)] + ([(+1, "I%d" % (k - 1))] if k > 0 else [])
        domains.append(("D%d" % k, b)); cond["D%d" % k] = sigmas[k]
    domains.append(("Air", [(+1, "I%d" % (n - 1))])); cond["Air"] = 0.0
    return dict(meshes=meshes, interfaces=interfaces, domains=domains, cond=cond,
                info=dict(kind="nested", topology="capped", radii=list(radii), centre=(0, 0, 0), axes=(1, 1, 1), level=level,
                          inner="D0", outer_radius=radii[-1], capped=sorted(capped)))

# ------------------------------------------------------------------ probes
def probe_points(m, rng, n, margin=0.04):
    """random points of the bounding box (slightly enlarged) farther than `margin` (relative to the box size)
    from every triangle vertex-sampled surface: distance to the nearest surface estimated by sampling the
    triangles (centres, vertices, edge midpoints)"""
    pts = []
    samples = []
    lo = [1e300] * 3; hi = [-1e300] * 3
    for _, vs, ts in m["meshes"]:
        for v in vs:
            for k in range(3): lo[k] = min(lo[k], v[k]); hi[k] = max(hi[k], v[k])
        for a, b, c in ts:
            A, B, C = vs[a], vs[b], vs[c]
            for wa, wb, wc in ((1, 0, 0), (0, 1, 0), (0, 0, 1), (.5, .5, 0), (0, .5, .5), (.5, 0, .5), (1 / 3., 1 / 3., 1 / 3.),
                               (.6, .2, .2), (.2, .6, .2), (.2, .2, .6)):
                samples.append(tuple(wa * A[k] + wb * B[k] + wc * C[k] for k in range(3)))
    size = max(hi[k] - lo[k] for k in range(3))
    tries = 0
    while len(pts) < n and tries < 200 * n:
        tries += 1
        p = tuple(rng.uniform(lo[k] - 0.15 * size, hi[k] + 0.15 * size) for k in range(3))
        d2 = min((p[0] - s[0]) ** 2 + (p[1] - s[1]) ** 2 + (p[2] - s[2]) ** 2 for s in samples)
        if d2 > (margin * size) ** 2: pts.append(p)
    return pts

# ------------------------------------------------------------------ re-descriptions (same physical model)
def perm(rng, n):
    p = list(range(n)); rng.shuffle(p); return p

def redescribe(m, rng, kind):
    """returns a new model dict describing the same head"""
    import models
    out = dict(m); out["meshes"] = list(m["meshes"]); out["interfaces"] = [(n, list(x)) for n, x in m["interfaces"]]
    out["domains"] = [(n, list(x)) for n, x in m["domains"]]; out["cond"] = dict(m["cond"]) if m.get("cond") is not None else None
    out["info"] = dict(m.get("info", {}))
    if kind == "vertex_perm":
        out["meshes"] = [models.relabel_vertices(ms, perm(rng, len(ms[1]))) for ms in out["meshes"]]
    elif kind == "triangle_order":
        nm = []
        for n, vs, ts in out["meshes"]:
            ts = list(ts); rng.shuffle(ts); nm.append((n, vs, ts))
        out["meshes"] = nm
    elif kind == "triangle_rotation":
        out["meshes"] = [models.rotate_triangles(ms, rng) for ms in out["meshes"]]
    elif kind == "mesh_flip":
        k = rng.randrange(len(out["meshes"]))
        fl = [(i == k or rng.random() < 0.3) for i in range(len(out["meshes"]))]
        flipped = {ms[0] for f, ms in zip(fl, out["meshes"]) if f}
        out["meshes"] = [models.flip_winding(ms) if f else ms for f, ms in zip(fl, out["meshes"])]
        # the signs inside a multi-mesh interface are relative to the windings in the files: a flipped member changes sign
        # (a single-mesh interface keeps its sign: the reader's global repair has to cope)
        multi = {mn for _, ms in out["interfaces"] if len(ms) > 1 for _, mn in ms}
        out["interfaces"] = [(n, [((-s if (mn in flipped and mn in multi) else s), mn) for s, mn in ms]) for n, ms in out["interfaces"]]
    elif kind == "local_flips":
        nm = []
        for n, vs, ts in out["meshes"]:
            ts = [((t[1], t[0], t[2]) if (i > 0 and rng.random() < 0.3) else t) for i, t in enumerate(ts)]
            nm.append((n, vs, ts))
        out["meshes"] = nm
    elif kind == "mesh_order":
        rng.shuffle(out["meshes"])
    elif kind == "interface_order":
        rng.shuffle(out["interfaces"])
    elif kind == "domain_order":
        rng.shuffle(out["domains"])
    elif kind == "boundary_order":
        for n, bs in out["domains"]: rng.shuffle(bs)
        for n, ms in out["interfaces"]: rng.shuffle(ms)
    elif kind == "rename":
        def nn(prefix, k): return "%s_%d%s" % (prefix, k, rng.choice(["", "x", "-a", ".b"]))
        mmap = {n: nn("M", k) for k, (n, _, _) in enumerate(out["meshes"])}
        imap = {n: nn("S", k) for k, (n, _) in enumerate(out["interfaces"])}
        dmap = {n: nn("R", k) for k, (n, _) in enumerate(out["domains"])}
        out["meshes"] = [(mmap[n], vs, ts) for n, vs, ts in out["meshes"]]
        out["interfaces"] = [(imap[n], [(s, mmap.get(x, x)) for s, x in ms]) for n, ms in out["interfaces"]]
        out["domains"] = [(dmap[n], [(s, imap.get(x, x)) for s, x in bs]) for n, bs in out["domains"]]
        if out["cond"] is not None: out["cond"] = {dmap.get(k, k): v for k, v in out["cond"].items()}
        for key in ("inner", "inner2"):
            if key in out["info"]: out["info"][key] = dmap.get(out["info"][key], out["info"][key])
        out["info"]["dmap"] = dmap
    elif kind == "identity":
        pass
    else:
        raise ValueError(kind)
    return out

KINDS_EXACT = ["vertex_perm", "triangle_rotation", "rename", "boundary_order", "interface_order"]
KINDS_ORDER = ["triangle_order", "mesh_order", "domain_order", "mesh_flip"]

# ------------------------------------------------------------------ writers
def _f(x): return repr(float(x))

def f32(x): return struct.unpack("f", struct.pack("f", x))[0]

def write_mesh_bin(path, verts, tris):
    """BrainVisa .mesh, little-endian binary, float32 coordinates (MeshIOs/mesh.h)"""
    import models
    ns = models.vertex_normals(verts, tris)
    with open(path, "wb") as fh:
        fh.write(b"binarDCBA")
        fh.write(struct.pack("<I", 4)); fh.write(b"VOID")
        fh.write(struct.pack("<III", 3, 1, 0))
        fh.write(struct.pack("<I", len(verts)))
        for v in verts: fh.write(struct.pack("<fff", *v))
        fh.write(struct.pack("<I", len(verts)))
        for n in ns: fh.write(struct.pack("<fff", *n))
        fh.write(struct.pack("<I", 0))
        fh.write(struct.pack("<I", len(tris)))
        for t in tris: fh.write(struct.pack("<III", *t))

def write_meshes(m, dirpath, fmt="tri"):
    import models
    os.makedirs(dirpath, exist_ok=True)
    files = {}
    for k, (name, vs, ts) in enumerate(m["meshes"]):
        fn = "mesh%d.%s" % (k, fmt)
        if fmt == "mesh": write_mesh_bin(os.path.join(dirpath, fn), vs, ts)
        else:
            try: models.WRITERS[fmt](os.path.join(dirpath, fn), vs, ts)
            except IndexError:      # damaged mesh (triangle referring to a vertex that does not exist): raw tri file
                with open(os.path.join(dirpath, fn), "w") as fh:
                    fh.write("- %d\n" % len(vs))
                    for v in vs: fh.write(" ".join(_f(c) for c in v) + " 0 0 1\n")
                    fh.write("- %d %d %d\n" % (len(ts), len(ts), len(ts)))
                    for t in ts: fh.write("%d %d %d\n" % tuple(t))
        files[k] = fn
    return files

def sg(s): return "+" if s > 0 else "-"

def geom_tokens(m, style="1.1", rng=None):
    """token structure of a .geom file for the model in the given style (what coq/Geom/GeomFile.v reads):
    dict(version, has_meshes, meshes=[(given name|None, mesh number)], ifaces=[(given|None, [(sgn, name)])],
         domains=[(name, [("t", sgn, name) | ("shared",)])], comments=bool);  sgn in "", "+", "-".
    Returns None if the model cannot be written in that style."""
    single = all(len(ms) == 1 and ms[0][0] > 0 for _, ms in m["interfaces"]) and len(m["interfaces"]) == len(m["meshes"]) \
        and [ms[0][1] for _, ms in m["interfaces"]] == [n for n, _, _ in m["meshes"]]
    def sgn(s, loose): return "-" if s < 0 else ("+" if (not loose or rng is None or rng.random() < 0.5) else "")
    T = dict(version="1.1", has_meshes=True, meshes=[], ifaces=[], domains=[], comments=(style == "1.1c"))
    if style in ("1.1", "1.1c"):
        loose = style == "1.1c"
        T["meshes"] = [(n, k) for k, (n, _, _) in enumerate(m["meshes"])]
        T["ifaces"] = [(n, [(sgn(s, loose), mn) for s, mn in ms]) for n, ms in m["interfaces"]]
        T["domains"] = [(n, [("t", sgn(s, loose), i) for s, i in bs]) for n, bs in m["domains"]]
    elif style == "1.1i":
        if not single: return None
        T["has_meshes"] = False
        T["meshes"] = [(n, k) for k, (n, _) in enumerate(m["interfaces"])]
        T["domains"] = [(n, [("t", sgn(s, False), i) for s, i in bs]) for n, bs in m["domains"]]
    elif style == "1.1u":
        mnum = {n: str(k + 1) for k, (n, _, _) in enumerate(m["meshes"])}
        inum = {n: str(k + 1) for k, (n, _) in enumerate(m["interfaces"])}
        if len(mnum) != len(m["meshes"]) or len(inum) != len(m["interfaces"]): return None
        T["meshes"] = [(None, k) for k in range(len(m["meshes"]))]
        T["ifaces"] = [(None, [(sgn(s, False), mnum.get(mn, mn)) for s, mn in ms]) for n, ms in m["interfaces"]]
        T["domains"] = [(n, [("t", sgn(s, False), inum.get(i, i)) for s, i in bs]) for n, bs in m["domains"]]
    elif style == "1.1m":
        # named and unnamed entries mixed: an unnamed entry is called by its POSITION in the section (k+1)
        if rng is None: return None
        um = [rng.random() < 0.5 for _ in m["meshes"]]; ui = [rng.random() < 0.5 for _ in m["interfaces"]]
        if not any(um[1:]) and len(um) > 1: um[-1] = True          # an unnamed entry after a named one
        if um and all(um): um[0] = False
        if not any(ui[1:]) and len(ui) > 1: ui[-1] = True
        if ui and all(ui): ui[0] = False
        mnum = {n: (str(k + 1) if um[k] else n) for k, (n, _, _) in enumerate(m["meshes"])}
        inum = {n: (str(k + 1) if ui[k] else n) for k, (n, _) in enumerate(m["interfaces"])}
        if len(set(mnum.values())) != len(m["meshes"]) or len(set(inum.values())) != len(m["interfaces"]): return None
        T["meshes"] = [((None if um[k] else n), k) for k, (n, _, _) in enumerate(m["meshes"])]
        T["ifaces"] = [((None if ui[k] else n), [(sgn(s, False), mnum.get(mn, mn)) for s, mn in ms]) for k, (n, ms) in enumerate(m["interfaces"])]
        T["domains"] = [(n, [("t", sgn(s, False), inum.get(i, i)) for s, i in bs]) for n, bs in m["domains"]]
        T["mesh_names"] = [mnum[n] for n, _, _ in m["meshes"]]; T["iface_names"] = [inum[n] for n, _ in m["interfaces"]]
    elif style == "1.0":
        if not single: return None
        inum = {n: str(k + 1) for k, (n, _) in enumerate(m["interfaces"])}
        T["version"] = "1.0"; T["has_meshes"] = False
        T["meshes"] = [(None, k) for k in range(len(m["interfaces"]))]
        for n, bs in m["domains"]:
            toks = [("t", sgn(s, True), inum.get(i, i)) for s, i in bs]
            if rng is not None and rng.random() < 0.25: toks.append(("shared",))
            T["domains"].append((n.replace(":", "_"), toks))
    else:
        raise ValueError(style)
    return T

def write_geom(m, dirpath, fmt="tri", style="1.1", rng=None, stem="model", tokens=None):
    """writes the mesh files and <stem>.geom in the given style ('1.1' full syntax, '1.1c' the same with comments,
    blank lines and optional '+' omitted, '1.1i' meshes given as interfaces, '1.1u' unnamed Mesh:/Interface:
    sections, '1.0' legacy).  Returns the path (None if the style cannot express the model); the token structure
    is left in write_geom.last."""
    files = write_meshes(m, dirpath, fmt)
    T = tokens if tokens is not None else geom_tokens(m, style, rng)
    write_geom.last = T; write_geom.files = files
    if T is None: return None
    g = os.path.join(dirpath, stem + ".geom")
    L = []
    def cm():
        # blocks of comment lines, blank lines and indented comments in any succession (skip_comments must take them all)
        if T.get("comments") and rng is not None and rng.random() < 0.6:
            for _ in range(rng.randint(1, 4)):
                L.append(rng.choice(["# a comment", "", "#", "   # indented comment", "#Mesh x: \"nothing\"", "\t# tab", "  "]))
    L.append("# Domain Description %s" % T["version"]); cm()
    if T["version"] == "1.0":
        L.append(""); L.append("Interfaces %d Mesh" % len(T["meshes"])); L.append("")
        for given, k in T["meshes"]: L.append(files[k])
        L.append(""); L.append("Domains %d" % len(T["domains"])); L.append("")
        for n, toks in T["domains"]:
            L.append("Domain %s %s" % (n, " ".join(("shared" if t[0] == "shared" else t[1] + t[2]) for t in toks)))
    else:
        if T["has_meshes"]:
            L.append("Meshes %d" % len(T["meshes"])); cm()
            for given, k in T["meshes"]:
                L.append(('Mesh %s: "%s"' % (given, files[k])) if given is not None else ('Mesh: "%s"' % files[k])); cm()
            L.append("Interfaces %d" % len(T["ifaces"])); cm()
            for given, toks in T["ifaces"]:
                L.append(("Interface %s: " % given if given is not None else "Interface: ") + " ".join(s_ + n for s_, n in toks)); cm()
        else:
            L.append(""); L.append("Interfaces %d" % len(T["meshes"])); L.append("")
            for given, k in T["meshes"]:
                L.append(('Interface %s: "%s"' % (given, files[k])) if given is not None else ('Interface: "%s"' % files[k]))
        L.append("Domains %d" % len(T["domains"])); cm()
        for n, toks in T["domains"]:
            L.append("Domain %s: %s" % (n, " ".join(("shared" if t[0] == "shared" else t[1] + t[2]) for t in toks))); cm()
    with open(g, "w") as fh: fh.write("\n".join(L) + "\n")
    return g
write_geom.last = None

def file_wire(m, T, ids=None):
    """integer wire of the token structure for coq/Geom/RunC11.v (getCase, up to the interface signs); names -> ids.
    Returns (head, tail, ids): head = version .. interfaces, tail = domains + numeral names"""
    ids = {} if ids is None else ids
    def nid(n):
        if n not in ids: ids[n] = len(ids)
        return ids[n]
    SG = {"": 0, "+": 1, "-": 2}
    head = [0 if T["version"] == "1.0" else 1, 1 if T["has_meshes"] else 0, len(T["meshes"])]
    pid = point_ids(m["meshes"])
    for given, k in T["meshes"]:
        head += [0, 0] if given is None else [1, nid(given)]
        name, vs, ts = m["meshes"][k]
        head += [len(pid[k])] + pid[k] + [len(ts)] + [x for t in ts for x in t]
    head.append(len(T["ifaces"]))
    for given, toks in T["ifaces"]:
        head += ([0, 0] if given is None else [1, nid(given)]) + [len(toks)]
        for s_, n in toks: head += [SG[s_], nid(n)]
    tail = [len(T["domains"])]
    for n, toks in T["domains"]:
        tail += [nid(n), len(toks)]
        for t in toks: tail += ([1, 0, 0] if t[0] == "shared" else [0, SG[t[1]], nid(t[2])])
    K = max(len(T["meshes"]), len(T["ifaces"])) + 2
    tail += [K] + [nid(str(k + 1)) for k in range(K)]
    return head, tail, ids

def style_names(m, style):
    """the names under which meshes / interfaces are known after loading in that style"""
    if style in ("1.1", "1.1c"): return [n for n, _, _ in m["meshes"]], [n for n, _ in m["interfaces"]]
    if style == "1.1i": return [n for n, _ in m["interfaces"]], [n for n, _ in m["interfaces"]]
    if style == "1.1u": return [str(k + 1) for k in range(len(m["meshes"]))], [str(k + 1) for k in range(len(m["interfaces"]))]
    return [str(k + 1) for k in range(len(m["interfaces"]))], [str(k + 1) for k in range(len(m["interfaces"]))]

def write_cond(m, dirpath, rng=None, stem="model", extra=None, header=True):
    """conductivity file: header line, then 'name value' lines in any order, comments allowed.  `extra`: additional
    (name, value) entries (duplicates, unknown names) inserted at random places.  Returns (path, lines) with
    lines = [("c",) | ("e", name, value)] in file order (what coq/Geom/CondFile.v reads)"""
    c = os.path.join(dirpath, stem + ".cond")
    items = [("e", k, v) for k, v in m["cond"].items()]
    if rng is not None: rng.shuffle(items)
    for e in (extra or []):
        items.insert(rng.randrange(0, len(items) + 1) if rng is not None else len(items), ("e", e[0], e[1]))
    lines = []
    for it in items:
        if rng is not None and rng.random() < 0.4: lines.append(("c",))
        lines.append(it)
    if rng is not None and rng.random() < 0.3: lines.append(("c",))
    L = ["# Properties Description 1.0 (Conductivities)" if header else "# Properties Description 1.0 (Conductivity)"]
    for it in lines:
        if it[0] == "c":
            L.append(rng.choice(["# comment", "#" + (items[0][1] if items else "x") + " 5.0", "   # spaces before", "#", "# Air 3"]) if rng is not None else "# c")
            if rng is not None:
                # ... possibly followed by blank lines and further (indented) comments: still one comment block
                for _ in range(rng.randint(0, 3)): L.append(rng.choice(["", "\t", "  ", "# more", "    # indented", "#"]))
        else:
            sep = rng.choice([" ", "\t", "   "]) if rng is not None else " "
            L.append("%s%s%s" % (it[1], sep, _f(it[2])))
    with open(c, "w") as fh: fh.write("\n".join(L) + "\n")
    return c, lines

def cond_wire(m, lines, has_cond, header=True, ids=None):
    """integer/float wire of the conductivity part of a case (names -> the ids used for the .geom tokens)"""
    ids = {} if ids is None else ids
    def nid(n):
        if n not in ids: ids[n] = len(ids)
        return ids[n]
    w = [1 if has_cond else 0, 1 if header else 0, len(lines) if has_cond else 0]
    fl = []
    if has_cond:
        for it in lines:
            if it[0] == "c": w += [0, 0]
            else: w += [1, nid(it[1])]; fl.append(float(it[2]))
    return w, fl

# ------------------------------------------------------------------ character-level wire (coq/Geom/RunC11Lex.v)
def chars(text): return [len(text)] + list(text)        # text: bytes

def lex_wire(m, T, files, geom_text, cond_text, has_cond, old, isign, probe_wire):
    """integer wire of a case whose .geom / .cond files are handed to the model as characters; the mesh payloads follow
    in the order in which the description names them, each with the path it is stored under"""
    pid = point_ids(m["meshes"])
    w = [1 if old else 0] + chars(geom_text) + [len(T["meshes"])]
    for given, k in T["meshes"]:
        name, vs, ts = m["meshes"][k]
        w += chars(files[k].encode()) + [len(pid[k])] + pid[k] + [len(ts)] + [x for t in ts for x in t]
    w += [len(isign)] + list(isign) + list(probe_wire)
    w += [1 if has_cond else 0] + chars(cond_text if has_cond else b"")
    return w

LEX_MUTATIONS = ["two-blanks", "space-before-colon", "tab-after-keyword", "crlf", "no-final-newline", "missing-colon",
                 "leading-blank-lines", "comment-before-header", "one-domain-too-many", "one-domain-too-few", "comments-everywhere"]

def mutate_geom(text, kind, rng):
    """textual variants of a .geom file aimed at the lexer (io_utils); returns bytes or None if not applicable"""
    t = text.decode()
    import re
    if kind == "two-blanks":
        kw = rng.choice(["Mesh ", "Interface ", "Domain "])
        if kw not in t: return None
        return t.replace(kw, kw + " ", 1).encode()
    if kind == "space-before-colon":
        mm = re.search(r"^(Domain|Interface|Mesh) (\S+):", t, re.M)
        if not mm: return None
        return (t[:mm.end() - 1] + " :" + t[mm.end():]).encode()
    if kind == "tab-after-keyword":
        return re.sub(r"^(Domain|Interface|Mesh) ", lambda g: g.group(1) + "\t", t, flags=re.M).encode()
    if kind == "crlf": return t.replace("\n", "\r\n").encode()
    if kind == "no-final-newline": return t.rstrip("\n").encode()
    if kind == "missing-colon":
        mm = re.search(r"^Domain (\S+):", t, re.M)
        if not mm: return None
        return (t[:mm.end() - 1] + t[mm.end():]).encode()
    if kind == "leading-blank-lines": return ("\n  \n" + t).encode()
    if kind == "comment-before-header": return ("# a comment\n" + t).encode()
    if kind in ("one-domain-too-many", "one-domain-too-few"):
        mm = re.search(r"^Domains (\d+)", t, re.M)
        if not mm: return None
        n = int(mm.group(1)) + (1 if kind.endswith("many") else -1)
        return (t[:mm.start()] + "Domains %d" % n + t[mm.end():]).encode()
    if kind == "comments-everywhere":
        lines = t.split("\n"); out = [lines[0]]
        for l in lines[1:]:
            if rng.random() < 0.5: out.append(rng.choice(["#", "# Mesh x: \"y\"", "   # c", "\t#Domains 9"]))
            out.append(l)
        return "\n".join(out).encode()
    return None

def mutate_cond(text, kind, rng):
    t = text.decode()
    if kind == "spaces-in-header": return t.replace("(Conductivities)", "(  Conductivities )", 1).encode()
    if kind == "crlf": return t.replace("\n", "\r\n").encode()
    if kind == "no-final-newline": return t.rstrip("\n").encode()
    if kind == "trailing-comment": return (t + "# the end").encode()
    if kind == "header-lowercase": return t.replace("Properties", "properties", 1).encode()
    if kind == "name-without-value": return (t.rstrip("\n") + "\nLonely\n").encode()
    if kind == "name-without-value-then-comment": return (t.rstrip("\n") + "\nLonely\n# c\n").encode()
    return None
COND_MUTATIONS = ["spaces-in-header", "crlf", "no-final-newline", "trailing-comment", "header-lowercase", "name-without-value", "name-without-value-then-comment"]
