"""Whole-problem cases for the moved / rescaled-problem checks (C02, C03): a head model from lib/models.py plus
dipoles, EEG / ECoG / EIT electrodes, MEG sensors, internal evaluation points and a surface-source mesh; the
transformation x -> s*(R x)+t of *everything*, conductivities * k; file writers (17 significant digits); the
harness runner / parser; relative-Frobenius comparison with the law G' = s^a k^b G per gain kind; and the
bisection gain kind -> operator -> entry -> triangle pair -> kernel call used when a law fails."""
import math, os, json
import models, core

# exponent of s (length) and of k (conductivity) per gain kind; EIT columns: see eit_law()
LAWS = {"GainEEG": (-2, -1), "GainECoG": (-2, -1), "GainInternalPot": (-2, -1), "GainMEG": (-2, 0),
        "GainSurfSourceEEG": (0, -1), "GainSurfSourceMEG": (0, 0),
        "GainEIT": None, "GainEITInternalPot": None}
PROPERTY_KINDS = ("GainEEG", "GainECoG", "GainInternalPot", "GainMEG")      # named in the property text; the others are derived laws

def _fmt(x):
    s = repr(float(x))
    if "." not in s and "n" not in s:        # '1e-05' -> '1.0e-05' (the sensors reader's label heuristic counts dots)
        s = s.replace("e", ".0e") if "e" in s else s + ".0"
    return s

# ------------------------------------------------------------------ generation
def _in_ball(rng, centre, rmin, rmax):
    d = models.random_unit(rng)
    r = (rmin ** 3 + (rmax ** 3 - rmin ** 3) * rng.random()) ** (1 / 3.0)
    return tuple(centre[k] + r * d[k] for k in range(3))

def capball(rng, level=1):
    """a conducting ball whose SKIN is one interface made of two meshes (north and south caps of an octasphere sharing the
    equator vertices), optionally with a conducting core: the outermost, sensor-carrying interface is multi-mesh"""
    def sig(): return math.exp(rng.uniform(math.log(0.05), math.log(20.0)))
    v0, t0 = models.octasphere(level); eps = 1e-12
    ax = rng.randint(0, 2)                      # the cut plane is the coordinate plane  x_ax = 0
    vn, tn = models.submesh(v0, t0, lambda t: all(v0[a][ax] >= -eps for a in t))
    mirrored = rng.random() < 0.6
    if mirrored: vs, ts = mirror_mesh(vn, tn, ax)
    else: vs, ts = models.submesh(v0, t0, lambda t: all(v0[a][ax] <= eps for a in t))
    seam = (not mirrored) and rng.random() < 0.5
    if seam:
        # files "written by two tools": the rim vertices of the south cap differ from those of the north cap by ~1e-12 in every
        # coordinate (not bit-identical, so they are NOT shared: 4 more vertices per rim, in every frame)
        vs = [tuple(c + (rng.choice((-1, 1)) * rng.uniform(0.8e-12, 1.2e-12) if abs(v[ax]) <= eps else 0.0) for c in v) for v in vs]
    meshes = [("north", vn, tn), ("south", vs, ts)]
    interfaces = [("Skin", [(+1, "north"), (+1, "south")])]
    core = rng.random() < 0.6
    if core:
        vi, ti = models.icosphere(level)
        meshes.append(("core", models.transform(vi, 0.4), list(ti))); interfaces.append(("Core", [(+1, "core")]))
        domains = [("CORE", [(-1, "Core")]), ("BALL", [(-1, "Skin"), (+1, "Core")]), ("Air", [(+1, "Skin")])]
        cond = {"CORE": sig(), "BALL": sig(), "Air": 0.0}
    else:
        domains = [("BALL", [(-1, "Skin")]), ("Air", [(+1, "Skin")])]; cond = {"BALL": sig(), "Air": 0.0}
    return dict(meshes=meshes, interfaces=interfaces, domains=domains, cond=cond,
                info=dict(kind="capball", topology="capball", centre=(0, 0, 0), level=level, outer_radius=1.0, core=core, outer_mesh="south",
                          cut_axis="xyz"[ax], mirrored=mirrored, seam=seam))

def mirror_mesh(verts, tris, ax):
    """the mirror image of a mesh through the coordinate plane x_ax = 0 (winding swapped so that it stays outward).  The
    vertices ON the plane get -0.0 where the original has 0.0: the two files then describe the shared rim vertices with
    differently signed zeros (equal as numbers, different as bytes); the text writers keep the sign (`-0.0`)"""
    mv = [tuple((-c if k == ax else c) for k, c in enumerate(v)) for v in verts]
    return mv, [(a, c, b) for a, b, c in tris]

def structured_dipoles(m):
    """dipole positions that share coordinates EXACTLY in the reference frame (and in no rotated frame): columns along the
    axes crossing compartment boundaries (consecutive dipoles with equal (x,y), (y,z) or (x,z) in different domains) and a
    repeated position"""
    info = m["info"]; topo = info["topology"]; out = []
    def column(axis, values):
        for v in values:
            p = [0.0, 0.0, 0.0]; p[axis] = v; out.append(tuple(p))
    if topo in ("nested", "isolated"):
        radii = info["radii"]; mids = [0.5 * radii[0]]
        for k in range(1, len(radii)):
            if radii[k] - radii[k - 1] >= 0.04: mids.append(0.5 * (radii[k - 1] + radii[k]))
        if len(mids) > 1:
            for axis in (2, 0, 1): column(axis, mids + [-x for x in mids])
    elif topo == "split":
        ri = info["r_inner"]
        column(2, [0.3 * ri, -0.3 * ri, 0.45 * ri, -0.2 * ri])            # NORTH / SOUTH alternately, same (x,y)
        for x, y in ((0.2 * ri, 0.1 * ri), (-0.15 * ri, 0.25 * ri)):       # grid stored z-fastest
            for z in (0.25 * ri, -0.25 * ri): out.append((x, y, z))
    elif topo == "capball":
        if info.get("core"):
            for axis in (2, 0, 1): column(axis, [0.2, 0.62, -0.2, -0.62])   # CORE / BALL alternately
    elif topo in ("inclusions", "nonconductive"):
        for off, r, sg in info["blobs"]:
            if sg != 0.0:
                out += [tuple(off), (off[0], off[1], off[2] + 0.55), (off[0], off[1] + 0.5, off[2]) if abs(off[0]) < 0.3 else (off[0], off[1], off[2] - 0.55)]
    if out: out.append(out[-1])                                          # the same position twice (another moment)
    return out

def make_case(rng, level=1, kinds=("nested", "nested", "split", "inclusions", "nonconductive"), ndip=4, nsens=6):
    kinds = list(kinds)
    if "isolated" in kinds and rng.random() < kinds.count("isolated") / float(len(kinds)):
        # 4 nested spheres, shell and air both non-conductive: the outermost mesh touches zero conductivity on both sides
        # (an *isolated* mesh, excluded from the computation, its vertices invalid unless shared), the third one is the
        # conductive boundary.  Axis-aligned icospheres: the poles of all four meshes coincide in (x,y), in (y,z) and in (x,z).
        def sig(): return math.exp(rng.uniform(math.log(0.05), math.log(20.0)))
        r2 = rng.uniform(0.75, 0.9); r1 = r2 * rng.uniform(0.7, 0.92); r0 = r1 * rng.uniform(0.65, 0.9)
        m = models.nested([r0, r1, r2, 1.0], [sig(), sig(), sig(), 0.0], level)
        m["info"]["topology"] = "isolated"; m["info"]["radii"] = [r0, r1, r2]; m["info"]["outer_radius"] = r2
        m["info"]["outer_mesh"] = "m2"
    elif "capball" in kinds and rng.random() < kinds.count("capball") / float(max(1, len([k_ for k_ in kinds if k_ != "isolated"]))):
        m = capball(rng, level)
    else:
        m = models.random_model(rng, level, [k_ for k_ in kinds if k_ not in ("isolated", "capball")] or ["nested"])
    info = m["info"]; topo = info["topology"]; R = info["outer_radius"]
    if topo == "split" and rng.random() < 0.5:
        ms = list(m["meshes"]); names_ = [x[0] for x in ms]
        nv_, nt_ = ms[names_.index("north")][1], ms[names_.index("north")][2]
        sv_, st_ = mirror_mesh(nv_, nt_, 2); ms[names_.index("south")] = ("south", sv_, st_); m["meshes"] = ms
        info["mirrored"] = True
    if topo == "isolated": topo = "nested"          # sources / sensors as for a 3-layer nested model bounded by m2
    # orientation repair: one closed mesh wound inwards in the files (Interface::is_mesh_orientations_coherent has to
    # reorient it from the solid angle at the bounding-box centre, in the original and in the moved frame alike)
    closed = [i for i, (nm, _, _) in enumerate(m["meshes"]) if nm not in ("north", "south", "cut") and info["topology"] != "isolated"]
    if closed and rng.random() < 0.35:
        i = rng.choice(closed); ms = list(m["meshes"]); ms[i] = models.flip_winding(ms[i]); m["meshes"] = ms
        info["flipped_mesh"] = ms[i][0]
    # inradius factor of the icosphere/octasphere at this level (facets lie inside the sphere)
    inr = {0: 0.79, 1: 0.93, 2: 0.98, 3: 0.995}.get(level, 0.99)
    dip_pos = []; points = []
    if topo == "nested":
        r0 = info["radii"][0]
        dip_pos = [_in_ball(rng, (0, 0, 0), 0.0, 0.8 * inr * r0) for _ in range(ndip - 1)]
        dip_pos.append(_in_ball(rng, (0, 0, 0), 0.84 * inr * r0, 0.86 * inr * r0))        # near the boundary, with a margin
        radii = info["radii"]
        for k in range(len(radii)):            # one evaluation point per layer, away from the interfaces
            lo = radii[k - 1] * 1.02 if k else 0.0; hi = radii[k] * inr * 0.98
            if hi > lo * 1.02 + 1e-9: points.append(_in_ball(rng, (0, 0, 0), lo + 0.25 * (hi - lo), lo + 0.75 * (hi - lo)))
        points.append(_in_ball(rng, (0, 0, 0), 0.1 * radii[0], 0.6 * inr * radii[0]))
        points.append(_in_ball(rng, (0, 0, 0), 1.2 * R, 1.5 * R))          # in the air: dropped by the code (a decision)
        ecog_if = "I0"; ecog_r = radii[0]; ecog_c = (0, 0, 0)
        src_c = (0.03 * r0, -0.02 * r0, 0.05 * r0) if len(radii) > 1 else None; src_r = 0.35 * r0
    elif topo == "capball":
        core = info["core"]
        for j in range(ndip):
            dip_pos.append(_in_ball(rng, (0, 0, 0), 0.0, 0.3) if (core and j % 2) else _in_ball(rng, (0, 0, 0), 0.5 if core else 0.0, 0.62))
        points = [_in_ball(rng, (0, 0, 0), 0.48 if core else 0.0, 0.6), _in_ball(rng, (0, 0, 0), 1.6, 1.9)]
        if core: points.append(_in_ball(rng, (0, 0, 0), 0.0, 0.3))
        ecog_if = "Skin"; ecog_r = 1.0; ecog_c = (0, 0, 0)
        src_c = (0.02, -0.03, 0.04) if core else None; src_r = 0.25
    elif topo == "split":
        ri = info["r_inner"]
        for j in range(ndip):
            while True:
                p = _in_ball(rng, (0, 0, 0), 0.0, 0.75 * 0.8 * ri)        # octasphere level 1 is coarse: inradius ~0.8
                if abs(p[2]) > 0.12 * ri: break
            dip_pos.append(p)
        for sgn in (+1, -1):
            while True:
                p = _in_ball(rng, (0, 0, 0), 0.0, 0.6 * ri)
                if sgn * p[2] > 0.15 * ri: break
            points.append(p)
        points.append(_in_ball(rng, (0, 0, 0), 1.6 * R, 1.9 * R))
        ecog_if = "Cortex"; ecog_r = ri; ecog_c = (0, 0, 0)
        src_c = (0.05 * ri, -0.03 * ri, 0.42 * ri); src_r = 0.2 * ri
    else:
        blobs = info["blobs"]
        def clear_of_blobs(p, margin):
            return all(math.dist(p, off) > r * (1 + margin) for off, r, _ in blobs)
        while len(dip_pos) < ndip - 1:
            p = _in_ball(rng, (0, 0, 0), 0.0, 0.8 * inr * R)
            if clear_of_blobs(p, 0.25): dip_pos.append(p)
        cond_blobs = [(off, r) for off, r, s in blobs if s != 0.0]
        if cond_blobs:
            off, r = cond_blobs[0]; dip_pos.append(_in_ball(rng, off, 0.0, 0.6 * inr * r))
        else:
            while len(dip_pos) < ndip:
                p = _in_ball(rng, (0, 0, 0), 0.0, 0.8 * inr * R)
                if clear_of_blobs(p, 0.25): dip_pos.append(p)
        while len(points) < 2:
            p = _in_ball(rng, (0, 0, 0), 0.0, 0.8 * inr * R)
            if clear_of_blobs(p, 0.3): points.append(p)
        off, r, s = blobs[0]; points.append(_in_ball(rng, off, 0.0, 0.5 * inr * r))       # inside blob 0 (dropped when non-conductive)
        points.append(_in_ball(rng, (0, 0, 0), 1.3 * R, 1.6 * R))
        ecog_if = "B0"; ecog_r = r; ecog_c = off
        # surface sources must lie in a domain that is not bounded by a current barrier (SurfSourceMat indexes the
        # p-unknowns of every bounding mesh): inside a conductive blob, else none
        if cond_blobs: src_c = cond_blobs[-1][0]; src_r = 0.4 * cond_blobs[-1][1]
        else: src_c = None; src_r = 0.0
    dip_pos += structured_dipoles(m)
    dip_mom = [models.random_unit(rng) if (j % 3) else ((0.0, 0.0, 1.0), (1.0, 0.0, 0.0), (0.0, 1.0, 0.0))[(j // 3) % 3] for j in range(len(dip_pos))]
    # electrodes slightly off the outer surface (|offset| <= 2 %), MEG sensors at 1.05..1.5 R
    eeg = [tuple(R * (1 + rng.uniform(-0.02, 0.02)) * c for c in models.random_unit(rng)) for _ in range(nsens)]
    ecog = [tuple(ecog_c[k] + ecog_r * (1 + rng.uniform(-0.02, 0.02)) * d[k] for k in range(3)) for d in (models.random_unit(rng) for _ in range(3))]
    # a sensor-carrying interface made of several meshes (skin of the cap ball, north+south cortex of the split models):
    # electrodes all around it, up to 30 % of the radius outside and 20 % inside, so that the per-mesh part of
    # dist_point_interface (which mesh, which triangle) is exercised from every side
    def around(c, r, n):
        dirs = [(1, 0, 0), (-1, 0, 0), (0, 1, 0), (0, -1, 0), (0, 0, 1), (0, 0, -1)]; outl = []
        for j in range(n):
            d = models.random_unit(rng)
            if j < 6:
                b = dirs[j]; d = tuple(b[k] + 0.35 * d[k] for k in range(3)); nn = math.sqrt(sum(x * x for x in d)); d = tuple(x / nn for x in d)
            f = 1 + rng.uniform(-0.2, 0.3)
            outl.append(tuple(c[k] + r * f * d[k] for k in range(3)))
        return outl
    if topo == "capball":
        eeg = around((0, 0, 0), R, 9); ecog = around((0, 0, 0), R, 8)
    elif topo == "split":
        ecog = around(ecog_c, ecog_r, 8)
        if not any(nm.startswith("shell") for nm, _, _ in m["meshes"]): eeg = around((0, 0, 0), R, 9)
    sq_pos = [tuple(R * rng.uniform(1.05, 1.5) * c for c in models.random_unit(rng)) for _ in range(nsens)]
    sq_ori = []
    for p in sq_pos:
        c = rng.random(); n = math.sqrt(sum(x * x for x in p)); rad = tuple(x / n for x in p)
        if c < 0.34: sq_ori.append(rad)
        else:
            u = models.random_unit(rng)
            sq_ori.append(tuple(rng.uniform(0.5, 2.0) * x for x in u))       # not normalised: the code divides by the norm
    sq_w = [rng.choice([1.0, 1.0, 0.5, 2.0]) for _ in sq_pos] if rng.random() < 0.5 else None
    # EIT electrodes: the current is injected on the *nearest triangle*, so an electrode whose closest point lies on an
    # edge is a tie that rounding decides (see the fixed witness in checks/c02.py); generated electrodes project well
    # inside a facet of the outer mesh, 1 % off the surface
    oname, overts, otris = outer_mesh(m); eit_pos = []
    for _ in range(3):
        tv = [overts[a] for a in rng.choice(otris)]
        w = [rng.uniform(0.2, 0.6) for _ in range(3)]; sw = sum(w)
        nrm = models.tri_normal(tv, (0, 1, 2)); ln = math.sqrt(sum(x * x for x in nrm))
        eit_pos.append(tuple(sum(w[i] * tv[i][k] for i in range(3)) / sw + 0.01 * R * nrm[k] / ln for k in range(3)))
    eit_rad = [rng.choice([0.0, 0.0, 0.25 * R, 0.4 * R]) for _ in eit_pos]
    sv, st = models.icosphere(0)
    if info["topology"] == "isolated":
        # two zero-conductivity domains: dist_point_geom returns the weights of the LAST interface scanned with the triangle
        # of the nearest one (C09's known finding); a harmless tie between two triangles of the conductive boundary then
        # moves stale weights to other vertices and the EEG row changes with the frame.  Electrodes of this topology
        # therefore project well inside a facet (no tie), like the EIT electrodes.
        eeg = []
        for _ in range(nsens):
            tv = [overts[a] for a in rng.choice(otris)]
            w = [rng.uniform(0.2, 0.6) for _ in range(3)]; sw = sum(w)
            nrm = models.tri_normal(tv, (0, 1, 2)); ln = math.sqrt(sum(x * x for x in nrm)); off = rng.uniform(-0.02, 0.02) * R
            eeg.append(tuple(sum(w[i] * tv[i][k] for i in range(3)) / sw + off * nrm[k] / ln for k in range(3)))
    source = (models.transform(sv, src_r, src_c), list(st)) if src_c is not None else None
    if source is not None and rng.random() < 0.5:
        # a flat source patch (3x3 squares, 18 triangles: many non-adjacent exactly coplanar pairs for Geometry::check /
        # Triangle::intersects), its normal along x, y or z in the reference frame
        axis = rng.randint(0, 2); h = 0.8 * src_r; pv = []
        for i in range(4):
            for j in range(4):
                uv = (-h + 2 * h * i / 3.0, -h + 2 * h * j / 3.0); p = [0.0, 0.0, 0.0]
                p[(axis + 1) % 3] = uv[0]; p[(axis + 2) % 3] = uv[1]
                pv.append(tuple(src_c[k_] + p[k_] for k_ in range(3)))
        pt = []
        for i in range(3):
            for j in range(3):
                a = 4 * i + j; b = 4 * (i + 1) + j; pt += [(a, b, b + 1), (a, b + 1, a + 1)]
        source = (pv, pt); info["flat_source_axis"] = "xyz"[axis]
    return dict(model=m, dip_pos=dip_pos, dip_mom=dip_mom, eeg=eeg, ecog=ecog, ecog_if=ecog_if, sq_pos=sq_pos, sq_ori=sq_ori, sq_w=sq_w,
                points=points, eit_pos=eit_pos, eit_rad=eit_rad, source=source, R=R)

def outer_mesh(m):
    """the mesh (name, verts, tris) carrying the outer surface (for split models without shells: the north cap)"""
    names = [x[0] for x in m["meshes"]]
    if m["info"].get("outer_mesh") in names: return m["meshes"][names.index(m["info"]["outer_mesh"])]
    if "outer" in names: return m["meshes"][names.index("outer")]
    if m["info"].get("kind") == "split" and not any(n.startswith("shell") for n in names): return m["meshes"][names.index("north")]
    return m["meshes"][-1]

IDENT = [[1.0, 0.0, 0.0], [0.0, 1.0, 0.0], [0.0, 0.0, 1.0]]

def transform_case(c, R=None, t=(0.0, 0.0, 0.0), s=1.0, k=1.0):
    """the same physical problem in another frame / unit: x -> s*(R x)+t everywhere, directions rotated (moments and
    orientation vectors keep their length), electrode radii * s, conductivities * k"""
    R = R or IDENT
    out = dict(c)
    m = models.move_model(c["model"], R, t, s); m = dict(m); m["cond"] = {d: v * k for d, v in c["model"]["cond"].items()}
    out["model"] = m
    for key in ("dip_pos", "eeg", "ecog", "sq_pos", "points", "eit_pos"):
        out[key] = models.move_points(c[key], R, t, s)
    out["dip_mom"] = models.move_dirs(c["dip_mom"], R); out["sq_ori"] = models.move_dirs(c["sq_ori"], R)
    out["eit_rad"] = [r * s for r in c["eit_rad"]]
    out["source"] = (models.move_points(c["source"][0], R, t, s), c["source"][1]) if c["source"] else None
    out["R"] = c["R"] * s
    return out

def write_case(c, d, fmt="tri"):
    os.makedirs(d, exist_ok=True)
    models.write_model(c["model"], d, fmt=fmt, stem="model")
    def rows(path, rs, names=None):
        with open(path, "w") as fh:
            for i, r in enumerate(rs):
                fh.write((names % (i + 1) + " " if names else "") + " ".join(_fmt(x) for x in r) + "\n")
    rows(os.path.join(d, "dipoles.txt"), [tuple(p) + tuple(q) for p, q in zip(c["dip_pos"], c["dip_mom"])])
    rows(os.path.join(d, "eeg.txt"), c["eeg"], "E%03d")
    rows(os.path.join(d, "ecog.txt"), c["ecog"], "C%03d")
    open(os.path.join(d, "ecog_interface.txt"), "w").write(c["ecog_if"] + "\n")
    sq = [tuple(p) + tuple(o) + ((w,) if c["sq_w"] else ()) for p, o, w in zip(c["sq_pos"], c["sq_ori"], c["sq_w"] or [1.0] * len(c["sq_pos"]))]
    rows(os.path.join(d, "squids.txt"), sq, "M%03d")
    rows(os.path.join(d, "points.txt"), c["points"])
    rows(os.path.join(d, "eit.txt"), [tuple(p) + (r,) for p, r in zip(c["eit_pos"], c["eit_rad"])], "I%03d")
    rows(os.path.join(d, "eit_pos.txt"), c["eit_pos"], "I%03d")
    if c["source"]: models.write_tri(os.path.join(d, "source.tri"), c["source"][0], c["source"][1])
    elif os.path.exists(os.path.join(d, "source.tri")): os.remove(os.path.join(d, "source.tri"))
    return d

def case_to_json(c):
    return json.loads(json.dumps(c))

def case_from_json(j):
    c = dict(j)
    m = dict(c["model"]); m["meshes"] = [(n, [tuple(v) for v in vs], [tuple(t) for t in ts]) for n, vs, ts in m["meshes"]]
    m["interfaces"] = [(n, [(s, mn) for s, mn in ms]) for n, ms in m["interfaces"]]
    m["domains"] = [(n, [(s, i) for s, i in bs]) for n, bs in m["domains"]]
    c["model"] = m
    for key in ("dip_pos", "dip_mom", "eeg", "ecog", "sq_pos", "sq_ori", "points", "eit_pos"):
        c[key] = [tuple(p) for p in c[key]]
    c["source"] = ([tuple(v) for v in c["source"][0]], [tuple(t) for t in c["source"][1]]) if c["source"] else None
    return c

# ------------------------------------------------------------------ harness output
class Mat:
    __slots__ = ("st", "nl", "nc", "a")
    def __init__(self, st, nl, nc, a): self.st = st; self.nl = nl; self.nc = nc; self.a = a
    def __call__(self, i, j): return self.a[i + self.nl * j]
    def col(self, j): return self.a[self.nl * j:self.nl * (j + 1)]

def parse_result(line):
    """'name st nl nc hex... ; name ...' -> {name: Mat}"""
    out = {}
    if line is None or line.startswith("CRASH"):
        return {"crash": Mat(3, 0, 0, [])}
    try:
        for part in line.split(" ; "):
            tk = part.split()
            if len(tk) < 4: continue
            nl, nc = int(tk[2]), int(tk[3])
            a = [float.fromhex(x) for x in tk[4:]]
            if int(tk[1]) == 0 and len(a) != nl * nc: raise ValueError("size")
            out[tk[0]] = Mat(int(tk[1]), nl, nc, a)
    except (ValueError, IndexError):
        # not a result line of the harness (library chatter on stdout, truncated line ...): treated like a crash of the case
        return {"crash": Mat(3, 0, 0, []), "garbled": Mat(3, 0, 0, [])}
    if not out: return {"crash": Mat(3, 0, 0, []), "garbled": Mat(3, 0, 0, [])}
    return out

def abnormal(res):
    """None for a normal result of a gains/ops case, else a short reason (crash/hang, garbled output, geometry not loaded)"""
    if "garbled" in res: return "garbled harness output"
    if "crash" in res: return "crash or hang of the harness"
    if "geometry" in res: return "geometry could not be loaded (status %d)" % res["geometry"].st
    return None

def fro(a): return math.sqrt(math.fsum(x * x for x in a))

def rel_diff(a, b):
    """||a-b||_F / max(||b||_F, tiny); nan anywhere -> inf"""
    if len(a) != len(b): return float("inf")
    d = fro([x - y for x, y in zip(a, b)]); n = fro(b)
    if d != d or n != n: return float("inf")
    if n == 0.0: return 0.0 if d == 0.0 else float("inf")
    return d / n

def eit_factors(case, s, k):
    """column factors of the EIT gains: radius 0 = unit current on the nearest triangle (1/area): s^-1; radius>0 = unit
    current density on the patch: s^+1; both 1/k"""
    return [(s ** -1 if r == 0.0 else s ** 1) / k for r in case["eit_rad"]]

def expected(name, G, case, s, k):
    """the law applied to the reference gain: list of expected values"""
    if name in ("GainEIT", "GainEITInternalPot"):
        f = eit_factors(case, s, k); out = []
        for j in range(G.nc): out += [x * f[j] for x in G.col(j)]
        return out
    a, b = LAWS[name]
    f = (s ** a) * (k ** b)
    return [x * f for x in G.a]

def compare_gains(ref, new, case, s=1.0, k=1.0, tol=1e-9):
    """-> (list of (name, kind, detail) failures, {name: rel}) ; kind in status/shape/value"""
    fails = []; levels = {}
    for name in sorted(set(ref) | set(new)):
        if name.startswith("dec_") or name.startswith("map_") or name == "cond": continue
        a = ref.get(name); b = new.get(name)
        if a is None or b is None:
            fails.append((name, "missing", "present only on one side")); continue
        if a.st != b.st:
            fails.append((name, "status", "status %d vs %d" % (a.st, b.st))); continue
        if a.st != 0: continue
        if (a.nl, a.nc) != (b.nl, b.nc):
            fails.append((name, "shape", "%dx%d vs %dx%d" % (a.nl, a.nc, b.nl, b.nc))); continue
        if name not in LAWS: continue
        r = rel_diff(b.a, expected(name, a, case, s, k))
        levels[name] = r
        if not (r <= tol):
            fails.append((name, "value", "relative Frobenius deviation %.3e" % r))
    return fails, levels

SELFCHECK_FLIPS = []     # (verdict in the reference frame, verdict in the transformed frame), see compare_decisions

def compare_decisions(ref, new, s=1.0):
    """frame-sensitive decisions: domain of each dipole/point, nearest triangle of each electrode, selfCheck/nested/size"""
    fails = []
    for name in ("dec_domains", "dec_geom"):
        a = ref.get(name); b = new.get(name)
        if a is None or b is None or a.st != b.st: fails.append((name, "status", "")); continue
        if a.a != b.a:
            idx = [i for i, (x, y) in enumerate(zip(a.a, b.a)) if x != y]
            if name == "dec_geom" and 0 in idx:
                # Geometry::selfCheck(): om_assemble -HM refuses a model whose verdict is false, so a flip is a frame-sensitive
                # refusal.  (It was only counted for a while: before c09's relative tolerances in Triangle::intersects the
                # verdict flipped by rounding noise on exactly coplanar non-adjacent pairs.)  Counted AND raised.
                SELFCHECK_FLIPS.append((a.a[0], b.a[0]))
            fails.append((name, "decision", "entries %s: %s vs %s" % (idx[:5], [a.a[i] for i in idx[:5]], [b.a[i] for i in idx[:5]])))
    a = ref.get("dec_nearest"); b = new.get("dec_nearest")
    if a is not None and b is not None and a.st == 0 and b.st == 0 and a.nl == b.nl:
        for i in range(a.nl):
            if a(i, 0) != b(i, 0) or a(i, 1) != b(i, 1):
                # legitimate only when two triangles are (nearly) equidistant; distances are reported
                fails.append(("dec_nearest", "decision", "electrode %d: triangle %d (mesh %d, dist %.17g) vs triangle %d (mesh %d, dist/s %.17g)" %
                              (i, a(i, 0), a(i, 1), a(i, 2), b(i, 0), b(i, 1), b(i, 2) / s)))
            elif not core.close(a(i, 2) * s, b(i, 2), 1e-9):
                fails.append(("dec_nearest", "value", "electrode %d: distance %.17g vs %.17g/s" % (i, a(i, 2), b(i, 2))))
    return fails

# ------------------------------------------------------------------ operator-level laws (bisection)
def op_law(name, i, j, nv, case, s, k):
    """factor expected for entry (i,j) of operator `name` when lengths*s, conductivities*k; nv = number of vertex unknowns
    (rows/cols < nv are potentials, the others normal currents)"""
    vi = i < nv; vj = j < nv
    if name == "HeadMat":
        if vi and vj: return s * k                      # N  (sigma)
        if vi != vj: return s * s                       # D  (indicator)
        return s ** 3 / k                               # S  (1/sigma)
    if name == "HeadMatInv":
        if vi and vj: return 1 / (s * k)
        if vi != vj: return s ** -2
        return k / s ** 3
    if name == "DipSourceMat": return (1 / s) if vi else (1.0 / k)
    if name in ("Head2EEGMat", "Head2ECoGMat"): return 1.0
    if name == "Head2MEGMat": return k
    if name == "DipSource2MEGMat": return s ** -2
    if name == "Surf2VolMat": return 1.0 if vj else s / k
    if name == "DipSource2InternalPotMat": return s ** -2 / k
    if name == "SurfSourceMat": return s if vi else s * s / k
    if name == "SurfSource2MEGMat": return 1.0
    if name == "EITSourceMat":
        c = (s ** -2) if case["eit_rad"][j] == 0.0 else 1.0
        return c * (s * s if vi else s ** 3 / k)
    return None

def worst_entries(name, A, B, nv, case, s, k, top=3):
    """entries of operator B deviating most from law(A); deviation relative to the column's largest expected magnitude"""
    out = []
    if A.st and A.st == B.st: return []
    if (A.nl, A.nc) != (B.nl, B.nc) or A.st or B.st: return [("shape", A.nl, A.nc, B.nl, B.nc)]
    scale = {}          # magnitude of the block (vertex/triangle rows x vertex/triangle columns) the entry belongs to
    for j in range(A.nc):
        for i in range(A.nl):
            f = op_law(name, i, j, nv, case, s, k)
            if f is None: return []
            key = (i < nv, j < nv); scale[key] = max(scale.get(key, 1e-300), abs(A(i, j) * f))
    for j in range(A.nc):
        ex = []
        for i in range(A.nl):
            f = op_law(name, i, j, nv, case, s, k)
            if f is None: return []
            ex.append(A(i, j) * f)
        for i in range(A.nl):
            e = ex[i]; g = B(i, j)
            if e == g: continue
            # entry-wise relative deviation, with the class scale of same-kind entries in this column
            sc = scale[(i < nv, j < nv)]
            d = abs(g - e) / sc
            if d != d: d = float("inf")
            out.append((d, i, j, e, g))
    out.sort(key=lambda t: -t[0])
    return out[:top]

# ------------------------------------------------------------------ running pairs, bisection
def run_lines(hb, wd, lines, tag="cases"):
    try:
        rc, outs, err = core.run_harness(hb, lines, wd, timeout=1200, tag=tag, max_restarts=8,
                                         env=dict(H_C02_ALARM=os.environ.get("H_C02_ALARM", "60" if os.environ.get("VERIF_TIER", "quick") != "thorough" else "600")))
    except Exception as e:          # the runner itself failed (binary missing, OS error): every case counts as crashed
        outs = ["CRASH runner: %r" % (e,)] * len(lines)
    outs = list(outs)[:len(lines)] + ["CRASH missing"] * max(0, len(lines) - len(outs))
    return [parse_result(o) for o in outs]

def kernel_outputs(hb, wd, lines, tag="kern"):
    """run_harness for kernel (`k`) lines, never raising and always returning len(lines) outputs"""
    try:
        rc, outs, err = core.run_harness(hb, lines, wd, tag=tag, max_restarts=8)
    except Exception as e:
        outs = ["CRASH runner: %r" % (e,)] * len(lines)
    return list(outs)[:len(lines)] + ["CRASH missing"] * max(0, len(lines) - len(outs))

def run_model_safe(wires):
    try:
        mo = list(core.run_model(wires))
    except Exception as e:
        mo = []
    return mo[:len(wires)] + ["-1"] * max(0, len(wires) - len(mo))

def fparse_safe(line):
    try: return core.fparse(line)
    except Exception: return None, None

def _tri_coords(maps, tindex):
    T = maps["map_triangles"]; V = maps["map_vertices"]
    vpos = {int(V(r, 0)): (V(r, 1), V(r, 2), V(r, 3)) for r in range(V.nl)}
    for r in range(T.nl):
        if int(T(r, 0)) == tindex:
            return [vpos[int(T(r, c))] for c in (2, 3, 4)], int(T(r, 1))
    return None, None

def _star(maps, vindex):
    T = maps["map_triangles"]
    return [int(T(r, 0)) for r in range(T.nl) if vindex in (int(T(r, 2)), int(T(r, 3)), int(T(r, 4)))]

def kline(op, ints, floats):
    return "k %d %s | %s" % (op, " ".join(str(i) for i in ints), " ".join(float(x).hex() for x in floats))

def bisect(hb, wd, case, moved, s, k, failing):
    """gain kind -> operator -> entry -> triangle pair -> kernel call.  Returns a dict for the replay file."""
    d0 = write_case(case, os.path.join(wd, "bis_a")); d1 = write_case(moved, os.path.join(wd, "bis_b"))
    r0, r1 = run_lines(hb, wd, ["ops " + d0, "ops " + d1], tag="bisect")
    out = dict(failing_gains=failing, operators=[])
    if "map_vertices" not in r0 or "map_vertices" not in r1: return out
    nv = r0["map_vertices"].nl
    worst = None
    for name in r0:
        if name in LAWS or name.startswith(("dec_", "map_")) or name == "cond" or name not in r1: continue
        w = worst_entries(name, r0[name], r1[name], nv, case, s, k)
        if not w: continue
        if w[0][0] == "shape":
            out["operators"].append(dict(operator=name, shape=list(w[0][1:]))); continue
        if w[0][0] > 1e-9:
            out["operators"].append(dict(operator=name, deviation=w[0][0], entry=[w[0][1], w[0][2]], expected=w[0][3], got=w[0][4]))
            if name != "HeadMatInv" and (worst is None or w[0][0] > worst[1][0]): worst = (name, w[0])
    if worst is None: return out
    name, (dev, i, j, e, g) = worst
    out["first_broken_operator"] = name; out["entry"] = [i, j]
    # triangle pairs behind the entry, replayed on the kernels in both frames
    pairs = []
    if name in ("HeadMat", "EITSourceMat"):
        if name == "EITSourceMat": return out
        ti = [i] if i >= nv else _star(r0, i); tj = [j] if j >= nv else _star(r0, j)
        pairs = [(a, b) for a in ti for b in tj][:40]
        lines = []; meta = []
        for a, b in pairs:
            for r in (r0, r1):
                ca, _ = _tri_coords(r, a); cb, _ = _tri_coords(r, b)
                if ca is None or cb is None: continue
                lines.append(kline(9, [], [x for p in cb for x in p] + [x for p in ca for x in p]))
            meta.append((a, b))
        outs = kernel_outputs(hb, wd, lines, tag="bisect_k")
        best = None
        for n, (a, b) in enumerate(meta):
            _, f0 = fparse_safe(outs[2 * n]); _, f1 = fparse_safe(outs[2 * n + 1])
            if not f0 or not f1: continue
            ex = [f0[0] * s ** 3] + [x * s ** 2 for x in f0[1:4]]
            dv = max(abs(x - y) / max(abs(x), abs(y), 1e-300) for x, y in zip(ex, f1) if x != y) if ex != f1 else 0.0
            if best is None or dv > best[0]: best = (dv, a, b, lines[2 * n], lines[2 * n + 1], outs[2 * n], outs[2 * n + 1])
        if best:
            out["kernel_replay"] = dict(triangles=[best[1], best[2]], deviation=best[0], what="analyticS / analyticD3 of the first triangle integrated (order 3) over the second; degrees 3 and 2",
                                        case_ref=best[3], case_moved=best[4], out_ref=best[5], out_moved=best[6])
    elif name == "DipSourceMat":
        tl = [i] if i >= nv else _star(r0, i)
        lines = []; meta = []
        for a in tl:
            for r, c in ((r0, case), (r1, moved)):
                ca, _ = _tri_coords(r, a)
                lines.append(kline(8, [10], list(c["dip_pos"][j]) + list(c["dip_mom"][j]) + [x for p in ca for x in p]))
            meta.append(a)
        outs = kernel_outputs(hb, wd, lines, tag="bisect_k")
        best = None
        for n, a in enumerate(meta):
            _, f0 = fparse_safe(outs[2 * n]); _, f1 = fparse_safe(outs[2 * n + 1])
            if not f0 or not f1: continue
            ex = [f0[0]] + [x / s for x in f0[1:4]]
            dv = max([abs(x - y) / max(abs(x), abs(y), 1e-300) for x, y in zip(ex, f1) if x != y] or [0.0])
            if best is None or dv > best[0]: best = (dv, a, lines[2 * n], lines[2 * n + 1], outs[2 * n], outs[2 * n + 1])
        if best:
            out["kernel_replay"] = dict(triangle=best[1], dipole=j, deviation=best[0], what="adaptive (10 levels, 1e-3) integral of the dipole potential and of analyticDipPotDer::f; degrees 0 and -1",
                                        case_ref=best[2], case_moved=best[3], out_ref=best[4], out_moved=best[5])
    return out

# ------------------------------------------------------------------ kernel-level metamorphic cases
# op -> (argument kinds: p point / d direction, outputs [(kind s|v, degree in length)], leading ints)
KERNELS = {1: ("pppp", [("s", 0)]), 2: ("pppp", [("s", 1)]), 3: ("pppp", [("s", 1)]), 4: ("pppp", [("s", 0)] * 3),
           5: ("pdp", [("s", -2)]), 6: ("pdpppp", [("s", -3)] * 3), 7: ("pppp", [("v", 0)]),
           8: ("pdppp", [("s", 0), ("s", -1), ("s", -1), ("s", -1)]), 9: ("pppppp", [("s", 3), ("s", 2), ("s", 2), ("s", 2)]),
           10: ("pppp", [("s", 1), ("s", 0), ("s", 0), ("s", 0)])}
KNAMES = {1: "solid_angle", 2: "analyticS(T).f", 3: "analyticS(v0,v1,v2).f", 4: "analyticD3.f", 5: "Dipole::potential", 6: "analyticDipPotDer.f",
          7: "ferguson vertex term", 8: "integrate(dipole potential / DipPotDer)", 9: "integrate(S, D3) over a triangle", 10: "dist_point_triangle"}
# which argument positions form the triangle and which is the evaluation point (for the geometric classes)
_TRI_X = {1: ((1, 2, 3), 0), 2: ((0, 1, 2), 3), 3: ((0, 1, 2), 3), 4: ((0, 1, 2), 3), 7: ((0, 1, 2), 3), 10: ((0, 1, 2), 3)}

def _rand_tri(rng, size=1.0):
    while True:
        pts = [tuple(rng.uniform(-size, size) for _ in range(3)) for _ in range(3)]
        n = models.tri_normal(pts, (0, 1, 2)); a = math.sqrt(sum(x * x for x in n))
        e = max(math.dist(pts[i], pts[(i + 1) % 3]) for i in range(3))
        if a > 0.15 * e * e and e > 0.2 * size: return pts

def _off_plane(rng, tri, size, margin):
    n = models.tri_normal(tri, (0, 1, 2)); a = math.sqrt(sum(x * x for x in n)); n = tuple(x / a for x in n)
    while True:
        p = tuple(rng.uniform(-1.5 * size, 1.5 * size) for _ in range(3))
        h = sum((p[k] - tri[0][k]) * n[k] for k in range(3))
        if abs(h) > margin * size and min(math.dist(p, v) for v in tri) > margin * size: return p

def _bary(tri, w):
    return tuple(sum(w[i] * tri[i][k] for i in range(3)) for k in range(3))

def gen_kernel_case(rng, op=None):
    """-> (op, ints, args [3-vectors], class tag)"""
    op = op or rng.choice([1, 1, 2, 3, 4, 4, 5, 6, 7, 8, 9, 10])
    size = math.exp(rng.uniform(math.log(0.05), math.log(5.0)))
    kinds, _ = KERNELS[op]; ints = []
    cls = "generic"
    if op in _TRI_X:
        tri = _rand_tri(rng, size); c = rng.random()
        if op == 10:
            x = tuple(rng.uniform(-2 * size, 2 * size) for _ in range(3)); cls = "generic"
        elif c < 0.70: x = _off_plane(rng, tri, size, 0.05)
        elif c < 0.80 and op in (1, 4):
            w = [rng.uniform(0.1, 1) for _ in range(3)]; t = sum(w); x = _bary(tri, [a / t for a in w]); cls = "inplane_inside"
        elif c < 0.90 and op in (1, 2, 3, 4, 7):
            u = rng.uniform(0.3, 1.5); v = rng.uniform(-0.5, 1.5); x = _bary(tri, [1 + u - v * 0.5, -u, v * 0.5])      # in the plane, beyond edge v0v2
            cls = "inplane_outside"
        elif c < 0.95 and op in (1, 4):
            x = tri[rng.randint(0, 2)]; cls = "vertex"
        else: x = _off_plane(rng, tri, size, 0.05)
        tpos, xpos = _TRI_X[op]; args = [None] * 4
        for i, t in zip(tpos, tri): args[i] = t
        args[xpos] = x
    elif op == 5:
        r0 = tuple(rng.uniform(-size, size) for _ in range(3)); q = models.random_unit(rng)
        while True:
            x = tuple(rng.uniform(-2 * size, 2 * size) for _ in range(3))
            if math.dist(x, r0) > 0.1 * size: break
        args = [r0, q, x]
    elif op in (6, 8):
        tri = _rand_tri(rng, size); r0 = _off_plane(rng, tri, size, 0.3); q = models.random_unit(rng)
        if op == 6:
            w = [rng.uniform(0.05, 1) for _ in range(3)]; t = sum(w); args = [r0, q] + tri + [_bary(tri, [a / t for a in w])]
        else:
            ints = [rng.choice([0, 0, 3, 10])]; args = [r0, q] + tri
    elif op == 9:
        tri = _rand_tri(rng, size)
        c = rng.random()
        if c < 0.2: tri2 = list(tri); cls = "same_triangle"
        elif c < 0.4:
            x = _off_plane(rng, tri, size, 0.1); tri2 = [tri[1], tri[0], x]; cls = "shared_edge"
        else:
            while True:
                tri2 = _rand_tri(rng, size); sh = tuple(rng.uniform(-2 * size, 2 * size) for _ in range(3))
                tri2 = [tuple(p[k] + sh[k] for k in range(3)) for p in tri2]
                if min(math.dist(p, q_) for p in tri for q_ in tri2) > 0.3 * size: break
        args = list(tri) + list(tri2)
    return op, ints, args, cls, size

def move_kernel_args(op, args, R, t, s):
    kinds, _ = KERNELS[op]
    return [models.move_points([a], R, t, s)[0] if kd == "p" else (models.apply_R(R, a) if R else tuple(a)) for kd, a in zip(kinds, args)]

def kernel_compare(op, f0, f1, R, s, size, rel=1e-9):
    """f0: outputs on the reference args, f1 on the moved/scaled ones. -> None or (index, expected, got)"""
    _, outs = KERNELS[op]; p = 0; R = R or IDENT
    exp = []; degs = []
    for kd, dg in outs:
        if kd == "s": exp.append(f0[p] * s ** dg); degs.append(dg); p += 1
        else:
            v = models.apply_R(R, f0[p:p + 3]); exp += [x * s ** dg for x in v]; degs += [dg] * 3; p += 3
    if len(exp) != len(f1): return (-1, len(exp), len(f1))
    for dg in set(degs):
        idx = [i for i, d in enumerate(degs) if d == dg]
        sc = max([abs(exp[i]) for i in idx] + [abs(f1[i]) for i in idx] + [1e-3 * (size * s) ** dg])
        for i in idx:
            if not core.close(exp[i], f1[i], rel, scale=sc): return (i, exp[i], f1[i])
    return None

# ------------------------------------------------------------------ driver shared by checks/c02.py and checks/c03.py
SINGULAR = 1e12

def cond_of(res):
    c = res.get("cond")
    if c is None or c.st or len(c.a) < 2: return None
    return c.a[1] / max(c.a[0], 1e-300)

def fixed_case(kind, seed=20260928):
    import random
    return make_case(random.Random(seed), 1, (kind,))

def tr_dict(R, t, s, k): return dict(R=R, t=list(t), s=s, k=k)

def run_pairs(ck, hb, items, tol=1e-9, stats=None, what="", inplace="first"):
    """items: [(label, case, [ (R,t,s,k), ... ])].  Runs the reference and every transformed copy, applies the laws,
    reports violations (with bisection and a replay holding the whole case).  Returns per-pair records."""
    lines = []; index = []
    for n, (label, case, trs) in enumerate(items):
        d0 = write_case(case, os.path.join(ck.workdir, "m%d_ref" % n)); lines.append("gains %s %s" % (d0, what)); index.append((n, None))
        for q, (R, t, s, k) in enumerate(trs):
            mv = transform_case(case, R, t, s, k)
            d = write_case(mv, os.path.join(ck.workdir, "m%d_t%d" % (n, q))); lines.append("gains %s %s" % (d, what)); index.append((n, q))
            if inplace and k == 1.0 and (inplace == "all" or q == 0):
                # the same transformed problem through the API: vertices of the loaded reference geometry moved in place
                Rm = R or IDENT
                lines.append("inplace %s %s %s %s" % (d0, d, what or "all", " ".join(float(x).hex() for x in [c_ for row in Rm for c_ in row] + list(t) + [s])))
                index.append((n, ("inplace", q)))
    res = run_lines(hb, ck.workdir, lines, tag="pairs")
    stats = stats if stats is not None else {}
    recs = []; ref = None
    for (n, q), r in zip(index, res):
        label, case, trs = items[n]
        if q is None:
            ref = r; continue
        via_api = isinstance(q, tuple)
        if via_api:
            q = q[1]; label = label + " [moved in place + Mesh::update(false)]"; stats["inplace_pairs"] = stats.get("inplace_pairs", 0) + 1
        R, t, s, k = trs[q]
        rec = dict(label=label, s=s, k=k, topology=case["model"]["info"].get("topology"), levels={}, singular=False, fails=[],
                   flipped=case["model"]["info"].get("flipped_mesh"))
        recs.append(rec)
        stats["pairs"] = stats.get("pairs", 0) + 1
        replay = dict(kind="pair", label=label, case=case_to_json(case), transform=tr_dict(R, t, s, k), tol=tol, what=what, via_api=via_api,
                      replay_cmd="./check %s --replay <this file>" % ck.prop)
        if "crash" in ref or "crash" in r or "geometry" in ref or "geometry" in r:
            st0 = "crash" if "crash" in ref else ("geometry-error" if "geometry" in ref else "ok")
            st1 = "crash" if "crash" in r else ("geometry-error" if "geometry" in r else "ok")
            if st0 != st1:
                rec["fails"].append(("load", "status", "%s vs %s" % (st0, st1)))
                ck.violation("%s: model loads in one frame only" % label, "the same model %s in the original frame and %s after x -> s(Rx)+t, s=%g k=%g" % (st0, st1, s, k), replay)
            continue
        c0 = cond_of(ref); c1 = cond_of(r)
        rec["cond"] = c0
        dfails = compare_decisions(ref, r, s)
        if via_api:
            # the bookkeeping (numbering, barriers, nesting) of the loaded object is kept by construction: only selfCheck can differ
            dfails = [f for f in dfails if not (f[0] == "dec_geom" and f[1] == "status")]
        ties = [f for f in dfails if f[0] == "dec_nearest" and f[1] == "decision" and _is_tie(f[2])]
        dfails = [f for f in dfails if f not in ties]
        stats["nearest_ties"] = stats.get("nearest_ties", 0) + len(ties)
        if dfails:
            rec["fails"] += dfails
            ck.violation("%s: decision differs (%s)" % (label, ",".join(sorted({f[0] for f in dfails}))),
                         "a frame/unit-sensitive decision changes when the whole problem is transformed (s=%g k=%g): %s" % (s, k, "; ".join("%s %s" % (f[0], f[2]) for f in dfails[:4])), replay)
        if c0 is not None and (c0 > SINGULAR or (c1 is not None and c1 > SINGULAR)):
            # gains of a singular system are not compared by value, but an exception / shape change in one frame only is
            # a frame-sensitive outcome whatever the conditioning
            sfails = [f for f in compare_gains(ref, r, case, s, k, tol)[0] if f[1] != "value"]
            inv_threw = any(x.get("HeadMatInv") is not None and x["HeadMatInv"].st != 0 for x in (ref, r))
            if inv_threw:
                # LAPACK meets an exactly zero pivot in one frame and a 1e-17 one in the other: inverting the singular matrix
                # throws or not by rounding; part of the singular-head-matrix known finding, not an outcome of its own
                stats["singular_inversion_threw"] = stats.get("singular_inversion_threw", 0) + 1; sfails = []
            if sfails:
                rec["fails"] += sfails
                ck.violation("%s: outcome differs between frames (%s)" % (label, ",".join(f[0] for f in sfails)),
                             "one frame throws / drops rows where the other returns (s=%g k=%g): %s" % (s, k, "; ".join("%s %s" % (f[0], f[2]) for f in sfails[:6])), replay)
            # numerically singular head matrix (C10): the gains are not determined; the operators still have to obey their laws
            rec["singular"] = True; stats["singular"] = stats.get("singular", 0) + 1
            mv = transform_case(case, R, t, s, k)
            b = bisect(hb, ck.workdir, case, mv, s, k, [])
            offs = [o for o in b.get("operators", []) if o["operator"] != "HeadMatInv"]
            if offs:
                replay["bisection"] = b
                ck.violation("%s: operators off the law (%s)" % (label, ",".join(o["operator"] for o in offs)),
                             "operator matrices of the transformed problem (s=%g k=%g) deviate from their laws: %s" % (s, k, "; ".join("%s entry %s dev %s" % (o["operator"], o.get("entry"), o.get("deviation", o.get("shape"))) for o in offs[:5])), replay)
            continue
        fails, levels = compare_gains(ref, r, case, s, k, tol)
        rec["levels"] = levels; rec["fails"] += fails
        for nm, v in levels.items():
            if v == v and v != float("inf"): stats.setdefault("level", {})[nm] = max(stats.get("level", {}).get(nm, 0.0), v)
        if fails:
            mv = transform_case(case, R, t, s, k)
            try: b = bisect(hb, ck.workdir, case, mv, s, k, [f[0] for f in fails])
            except Exception as e: b = dict(error=repr(e))
            replay["bisection"] = b
            kinds = ",".join(f[0] for f in fails)
            where = ""
            if b.get("first_broken_operator"):
                where = "; first operator off its law: %s entry %s" % (b["first_broken_operator"], b.get("entry"))
                if b.get("kernel_replay"): where += "; kernel replay on triangles %s deviates %.2e" % (b["kernel_replay"].get("triangles", b["kernel_replay"].get("triangle")), b["kernel_replay"]["deviation"])
            outcome = [f for f in fails if f[1] != "value"]
            ck.violation("%s: gains off the law (%s)" % (label, kinds),
                         ("OUTCOME differs between the frames (one throws / drops rows where the other returns): %s. " % "; ".join("%s %s" % (f[0], f[2]) for f in outcome[:4]) if outcome else "") +
                         ("The transformed problem was produced through the API (vertices of the loaded Geometry moved in place, Mesh::update(false)), not through files. " if via_api else "") +
                         "gain(s) %s of the transformed problem (s=%g, k=%g, rotation+translation %s) deviate from s^a k^b * reference: %s%s" %
                         (kinds, s, k, "yes" if R else "no", "; ".join("%s %s" % (f[0], f[2]) for f in fails[:6]), where), replay)
    return recs

def _is_tie(detail):
    import re
    m = re.findall(r"dist(?:/s)? ([0-9.eE+-]+)\)", detail)
    return len(m) == 2 and core.close(float(m[0]), float(m[1]), 1e-9)

def run_kernel_metamorphic(ck, hb, n, transforms, label, rel=1e-9):
    """real C++ kernels on random arguments and on the moved/scaled arguments.  transforms(rng) -> (R,t,s)"""
    cases = []; lines = []
    for _ in range(n):
        op, ints, args, cls, size = gen_kernel_case(ck.rng)
        R, t, s = transforms(ck.rng, size)
        margs = move_kernel_args(op, args, R, t, s)
        lines.append(kline(op, ints, [x for a in args for x in a])); lines.append(kline(op, ints, [x for a in margs for x in a]))
        cases.append((op, ints, args, cls, size, R, t, s))
    outs = kernel_outputs(hb, ck.workdir, lines, tag="kern")
    dist = {}; bad = 0
    for n_, (op, ints, args, cls, size, R, t, s) in enumerate(cases):
        z0, f0 = fparse_safe(outs[2 * n_]); z1, f1 = fparse_safe(outs[2 * n_ + 1])
        key = "%s/%s" % (KNAMES[op], cls); dist[key] = dist.get(key, 0) + 1
        r = None
        if z0 is None or z1 is None or z0 != z1: r = (-2, z0, z1)
        elif z0[0] == 0: r = kernel_compare(op, f0, f1, R, s, size, rel)
        if r is not None:
            bad += 1
            ck.violation("%s kernel %s (%s)" % (label, KNAMES[op], cls),
                         "kernel %s, class %s: result on transformed arguments (s=%g) differs from the transformed result: output %s expected %r got %r" % (KNAMES[op], cls, s, r[0], r[1], r[2]),
                         dict(kind="kernel", op=op, ints=ints, args=[list(a) for a in args], cls=cls, size=size, R=R, t=list(t), s=s,
                              cases=[lines[2 * n_], lines[2 * n_ + 1]], outputs=[outs[2 * n_], outs[2 * n_ + 1]]))
    return dist, bad

def replay_any(ck, hb, rp, label):
    """--replay: re-runs exactly the stored pair or kernel case"""
    if rp.get("kind") == "pair":
        case = case_from_json(rp["case"]); tr = rp["transform"]
        return run_pairs(ck, hb, [(rp.get("label", "replay"), case, [(tr["R"], tuple(tr["t"]), tr["s"], tr["k"])])], tol=rp.get("tol", 1e-9), what=rp.get("what", ""))
    if rp.get("kind") == "sweep":
        check_sigma_sweep(ck, hb, [(rp.get("label", "replay"), case_from_json(rp["case"]))], ks=tuple(rp["ks"]), tol=rp.get("tol", 1e-9))
        return []
    if rp.get("kind") == "kernel":
        op = rp["op"]; args = [tuple(a) for a in rp["args"]]
        margs = move_kernel_args(op, args, rp["R"], tuple(rp["t"]), rp["s"])
        lines = [kline(op, rp["ints"], [x for a in args for x in a]), kline(op, rp["ints"], [x for a in margs for x in a])]
        outs = kernel_outputs(hb, ck.workdir, lines, tag="kern")
        z0, f0 = fparse_safe(outs[0]); z1, f1 = fparse_safe(outs[1])
        r = (-2, z0, z1) if (z0 is None or z1 is None or z0 != z1) else (kernel_compare(op, f0, f1, rp["R"], rp["s"], rp["size"]) if z0[0] == 0 else None)
        if r is not None:
            ck.violation("%s kernel %s (%s)" % (label, KNAMES[op], rp["cls"]), "kernel %s: output %s expected %r got %r" % (KNAMES[op], r[0], r[1], r[2]), rp)
        return []
    ck.log("replay file of kind %r: nothing to run (proof/build entries are re-checked by a normal run)" % rp.get("kind"))
    return []


def clean_axiom_accounting(ck):
    """core.check_props' pattern also captures the 'Axioms:' header of Print Assumptions (and 'Warning:' lines) as if
    they were axiom names: drop those pseudo entries from the per-theorem lists and from the notes"""
    bogus = ("Axioms", "Warning")
    ck.notes = [n for n in ck.notes if not any(n.endswith("depends on " + b) for b in bogus)]
    for t in ck.cov.get("theorems", []):
        if t.get("axioms"): t["axioms"] = [a for a in t["axioms"] if a not in bogus]
    ax = sorted({a for t in ck.cov.get("theorems", []) for a in (t.get("axioms") or [])})
    ck.cov["axioms_used"] = ax
    return ax


# ------------------------------------------------------------------ decision models (coq/Geom/Decisions.v) vs the C++
def nominal_meshes(m):
    """mesh name -> (verts, tris) with the nominal (outward) winding: a mesh flipped in the files is flipped back,
    which is what the library's orientation repair arrives at"""
    out = {}
    for name, vs, ts in m["meshes"]:
        if m["info"].get("flipped_mesh") == name: ts = [(a, c, b) for a, b, c in ts]
        out[name] = (vs, ts)
    return out

def domain_wire(m, p):
    """case line for `c02 1`: Geometry::domain(p) on the model's domain description"""
    meshes = nominal_meshes(m); ifs = dict(m["interfaces"])
    ints = [1, len(m["domains"])]; fl = list(p)
    for dname, bs in m["domains"]:
        ints.append(len(bs))
        for sign, iname in bs:
            oms = ifs[iname]; ints += [1 if sign < 0 else 0, len(oms)]
            for osign, mname in oms:
                vs, ts = meshes[mname]; ints += [1 if osign > 0 else -1, len(ts)]
                for t in ts:
                    for a in t: fl += list(vs[a])
    return core.fcase("c02", ints, fl)

def single_barrier_mesh(m):
    """name of the only mesh scanned by dist_point_geom when the model has exactly one zero-conductivity domain bounded by
    one interface made of one mesh (else None)"""
    zs = [d for d, v in m["cond"].items() if v == 0.0]
    if len(zs) != 1: return None
    bs = dict(m["domains"])[zs[0]]
    if len(bs) != 1: return None
    oms = dict(m["interfaces"])[bs[0][1]]
    return oms[0][1] if len(oms) == 1 else None

def check_decision_models(ck, hb, cases):
    """float instance of first_domain / argmin_first (extracted) against Geometry::domain and dist_point_geom"""
    lines = []; wires = []; meta = []
    for n, c in enumerate(cases):
        lines.append("gains %s dec" % write_case(c, os.path.join(ck.workdir, "dm%d" % n)))
    res = run_lines(hb, ck.workdir, lines, tag="decmodel")
    klines = []; kmeta = []
    for n, (c, r) in enumerate(zip(cases, res)):
        dd = r.get("dec_domains")
        if dd is None or dd.st: continue
        pts = list(c["dip_pos"]) + list(c["points"])
        for i, p in enumerate(pts):
            wires.append(domain_wire(c["model"], p)); meta.append((n, i, int(dd.a[i])))
        dn = r.get("dec_nearest"); mname = single_barrier_mesh(c["model"])
        if dn is not None and dn.st == 0 and dn.nc == 8 and mname:
            vs, ts = {nm: (v_, t_) for nm, v_, t_ in c["model"]["meshes"]}[mname]     # triangles as in the files (the repair flips signs, not triangles)
            for e, q in enumerate(c["eeg"]):
                if int(dn(e, 7)) != len(ts): continue
                for t in ts: klines.append(kline(10, [], [x for a in t for x in vs[a]] + list(q)))
                kmeta.append((n, e, len(ts), int(dn(e, 6))))
    nd = na = bad = 0
    if wires:
        mo = run_model_safe(wires)
        for (n, i, impl), w, o in zip(meta, wires, mo):
            z, _ = fparse_safe(o); nd += 1
            got = z[1] if z and len(z) > 1 else None
            want = impl if impl >= 0 else -1
            if got != want:
                bad += 1
                ck.violation("decision model: Geometry::domain differs", "model %d point %d: Geometry::domain gives domain %s, the model (Geom/Decisions.v first_domain, float instance) %s" % (n, i, impl, got),
                             dict(kind="model", cases=[w], model=[o], impl=[impl],
                                  note="correspondence break (the model of the decision no longer describes the code); the moved-problem runs of the same check are the search for an input on which the property itself fails"),
                             found_input=False)
    if klines:
        outs = kernel_outputs(hb, ck.workdir, klines, tag="decmodel_k"); pos = 0; wl = []
        for (n, e, nt, impl) in kmeta:
            ds = []
            for o in outs[pos:pos + nt]:
                z_, f_ = fparse_safe(o); ds.append(f_[0] if (z_ and z_[0] == 0 and f_) else float("nan"))
            pos += nt
            wl.append(core.fcase("c02", [2], ds))
        mo = run_model_safe(wl)
        for (n, e, nt, impl), w, o in zip(kmeta, wl, mo):
            z, _ = fparse_safe(o); na += 1
            if not z or len(z) < 2 or z[1] != impl:
                bad += 1
                ck.violation("decision model: nearest triangle differs", "model %d electrode %d: dist_point_geom picks triangle %d of the mesh, the model (argmin_first over the C++ distances) %s" % (n, e, impl, z),
                             dict(kind="model", cases=[w], model=[o], impl=[impl],
                                  note="correspondence break (the model of the scan no longer describes the code); the moved-problem runs of the same check are the search for an input on which the property itself fails"),
                             found_input=False)
    return dict(domain_lookups=nd, nearest_scans=na, mismatches=bad)


# ------------------------------------------------------------------ conductivity sweep on ONE Geometry object
SWEEP = (1.0, 1e-3, 1e3, 0.1, 1.0)

def split_sweep(res, nsteps):
    """{'X@i': Mat} -> [ {X: Mat} for each step ]; abnormal results are replicated"""
    if abnormal(res): return [res] * nsteps
    steps = [dict() for _ in range(nsteps)]
    for name, m in res.items():
        if "@" in name:
            base, i = name.rsplit("@", 1)
            if i.isdigit() and int(i) < nsteps: steps[int(i)][base] = m
    return steps

def check_sigma_sweep(ck, hb, items, ks=SWEEP, tol=1e-9, stats=None):
    """the conductivity law exercised the way an API user sweeps conductivities: one Geometry, Domain::set_conductivity(k*sigma)
    for the factors ks in sequence, everything reassembled each time; compared (a) with the law relative to the first step and
    (b) with a freshly loaded geometry whose .cond file holds k*sigma.  items: [(label, case)]"""
    stats = stats if stats is not None else {}
    lines = []; index = []
    for n, (label, case) in enumerate(items):
        d = write_case(case, os.path.join(ck.workdir, "sw%d" % n))
        lines.append("sweep %s all %s" % (d, " ".join(float(k).hex() for k in ks))); index.append((n, None))
        for q, k in enumerate(ks):
            df = write_case(transform_case(case, None, (0.0, 0.0, 0.0), 1.0, k), os.path.join(ck.workdir, "sw%d_f%d" % (n, q)))
            lines.append("gains %s all" % df); index.append((n, q))
    res = run_lines(hb, ck.workdir, lines, tag="sweep")
    recs = []
    pos = 0
    for n, (label, case) in enumerate(items):
        sw = res[pos]; fresh = res[pos + 1:pos + 1 + len(ks)]; pos += 1 + len(ks)
        steps = split_sweep(sw, len(ks))
        replay = dict(kind="sweep", label=label, case=case_to_json(case), ks=list(ks), tol=tol, replay_cmd="./check %s --replay <this file>" % ck.prop)
        ab = abnormal(sw)
        if ab and not all(abnormal(f) for f in fresh):
            ck.violation("%s: in-place conductivity sweep abnormal" % label, "the sweep on one Geometry object ended with: %s, while freshly loaded geometries compute" % ab, replay)
            continue
        if ab: continue
        c0 = cond_of(steps[0])
        singular = c0 is not None and c0 > SINGULAR
        for q, k in enumerate(ks):
            stats["sweep_steps"] = stats.get("sweep_steps", 0) + 1
            rec = dict(label=label, step=q, k=k, singular=singular); recs.append(rec)
            if singular or abnormal(fresh[q]): continue
            f1, l1 = compare_gains(steps[0], steps[q], case, 1.0, k / ks[0], tol)
            f2, l2 = compare_gains(fresh[q], steps[q], case, 1.0, 1.0, tol)
            rec["law"] = l1; rec["fresh"] = l2
            for nm, v in list(l1.items()) + list(l2.items()):
                if v == v and v != float("inf"): stats.setdefault("sweep_level", {})[nm] = max(stats.get("sweep_level", {}).get(nm, 0.0), v)
            if f1 or f2:
                ck.violation("%s: in-place conductivity sweep (%s)" % (label, ",".join(sorted({f[0] for f in f1 + f2}))),
                             "one Geometry object, Domain::set_conductivity(k*sigma) for k in %s, reassembled each time: at step %d (k=%g) %s%s" %
                             (list(ks), q, k,
                              ("gains off the law relative to step 0: " + "; ".join("%s %s" % (f[0], f[2]) for f in f1[:4]) + ". ") if f1 else "",
                              ("gains differ from a freshly loaded geometry with the same conductivities: " + "; ".join("%s %s" % (f[0], f[2]) for f in f2[:4])) if f2 else ""),
                             replay)
                break
    return recs
