"""Bounded harness runs: a per-batch wall-clock limit proportional to the number of cases still to run; the case in flight
at a timeout is re-run alone with a generous limit; if it still does not finish its output becomes 'TIMEOUT <seconds>';
the remaining cases are then run as a new batch.  A case that finishes alone is judged normally (noted in the evidence)."""
import time
import core

def run_harness_bounded(binary, case_lines, workdir, tier="quick", env=None, tag="cases", base=20.0, per_case=0.3, alone=None):
    f = 5.0 if tier == "thorough" else 1.0
    alone = alone if alone is not None else (600.0 if tier == "thorough" else 120.0)
    n = len(case_lines); outs = [None] * n; notes = []; errs = ""; rc_final = 0; start = 0; confirmed = 0
    while start < n:
        limit = f * (base + per_case * (n - start))
        rc, o, e = core.run_harness(binary, case_lines[start:], workdir, timeout=limit, env=env, tag=tag, max_restarts=0)
        errs += e; rc_final = rc_final or rc
        k = next((i for i, x in enumerate(o) if x.startswith("CRASH")), None)
        if k is None:
            outs[start:] = o; break
        outs[start:start + k] = o[:k]
        g = start + k
        if o[k].startswith("CRASH -999"):
            # a hang: the case in flight alone, generous limit (shorter once a first hang of this run is confirmed)
            lim1 = alone if confirmed == 0 else max(30.0, alone / 4)
            t0 = time.time()
            rc1, o1, e1 = core.run_harness(binary, [case_lines[g]], workdir, timeout=lim1, env=env, tag=tag + "-alone", max_restarts=0)
            if o1 and not o1[0].startswith("CRASH"):
                outs[g] = o1[0]; notes.append("case %d hit the batch limit (%.0f s) but finished alone in %.1f s" % (g, limit, time.time() - t0))
            elif o1 and o1[0].startswith("CRASH -999"):
                outs[g] = "TIMEOUT %d" % int(lim1); confirmed += 1
                notes.append("case %d does not terminate within %.0f s even alone" % (g, lim1))
            else:
                outs[g] = o1[0] if o1 else "CRASH"
        else:
            outs[g] = o[k]
        start = g + 1
    return rc_final, [x if x is not None else "CRASH skipped" for x in outs], errs, notes
