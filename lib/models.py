"""Generators of whole head models for the end-to-end / geometry-level checks (all randomness from the rng
handed in).  A model is a plain dict that can be written as files (geom 1.1 + cond + meshes in tri/off/bnd/mesh
text at 17 digits) and also handed to a harness as an integer/float wire.

  model = dict(meshes   = [(name, verts[list of (x,y,z)], tris[list of (a,b,c)])],    # tris wound outward unless flipped
               interfaces = [(name, [(sign, meshname)])],
               domains  = [(name, [(sign, interfacename)])],    # sign -1: inside the interface, +1: outside
               cond     = {domainname: sigma},
               info     = {...})        # radii, centre, topology tag
Helpers: icosphere / octasphere meshes, nested / split-hemisphere / sibling-inclusion / non-conductive-inclusion
topologies, rigid motions from rational unit quaternions, scaling, re-descriptions, dipoles and sensors.
"""
import math, os, random

# ---------------------------------------------------------------- meshes
def _norm(v):
    n = math.sqrt(v[0] * v[0] + v[1] * v[1] + v[2] * v[2]); return (v[0] / n, v[1] / n, v[2] / n)

def _subdivide(verts, tris, level):
    verts = [_norm(v) for v in verts]
    for _ in range(level):
        cache = {}; nt = []
        def mid(a, b):
            k = (a, b) if a < b else (b, a)
            if k not in cache:
                va, vb = verts[a], verts[b]
                verts.append(_norm(((va[0] + vb[0]) / 2, (va[1] + vb[1]) / 2, (va[2] + vb[2]) / 2)))
                cache[k] = len(verts) - 1
            return cache[k]
        for a, b, c in tris:
            ab, bc, ca = mid(a, b), mid(b, c), mid(c, a)
            nt += [(a, ab, ca), (b, bc, ab), (c, ca, bc), (ab, bc, ca)]
        tris = nt
    return verts, tris

def icosphere(level=0):
    """unit sphere, 12/42/162/642 vertices for level 0/1/2/3; triangles wound counter-clockwise seen from outside"""
    t = (1.0 + math.sqrt(5.0)) / 2.0
    v = [(-1, t, 0), (1, t, 0), (-1, -t, 0), (1, -t, 0), (0, -1, t), (0, 1, t), (0, -1, -t), (0, 1, -t), (t, 0, -1), (t, 0, 1), (-t, 0, -1), (-t, 0, 1)]
    f = [(0, 11, 5), (0, 5, 1), (0, 1, 7), (0, 7, 10), (0, 10, 11), (1, 5, 9), (5, 11, 4), (11, 10, 2), (10, 7, 6), (7, 1, 8),
         (3, 9, 4), (3, 4, 2), (3, 2, 6), (3, 6, 8), (3, 8, 9), (4, 9, 5), (2, 4, 11), (6, 2, 10), (8, 6, 7), (9, 8, 1)]
    return _subdivide(v, f, level)

def octasphere(level=1):
    """unit sphere from an octahedron (6/18/66/258 vertices): has a ring of vertices on z=0, so it splits into hemispheres"""
    v = [(1, 0, 0), (-1, 0, 0), (0, 1, 0), (0, -1, 0), (0, 0, 1), (0, 0, -1)]
    f = [(0, 2, 4), (2, 1, 4), (1, 3, 4), (3, 0, 4), (2, 0, 5), (1, 2, 5), (3, 1, 5), (0, 3, 5)]
    return _subdivide(v, f, level)

def transform(verts, scale=1.0, centre=(0, 0, 0), axes=(1, 1, 1)):
    return [(v[0] * scale * axes[0] + centre[0], v[1] * scale * axes[1] + centre[1], v[2] * scale * axes[2] + centre[2]) for v in verts]

def submesh(verts, tris, keep):
    """triangles for which keep(tri) holds, vertices renumbered (order of first use)"""
    idx = {}; nv = []; nt = []
    for t in tris:
        if keep(t):
            for a in t:
                if a not in idx: idx[a] = len(nv); nv.append(verts[a])
            nt.append(tuple(idx[a] for a in t))
    return nv, nt

def tri_normal(verts, t):
    a, b, c = (verts[i] for i in t)
    u = (b[0] - a[0], b[1] - a[1], b[2] - a[2]); w = (c[0] - a[0], c[1] - a[1], c[2] - a[2])
    return (u[1] * w[2] - u[2] * w[1], u[2] * w[0] - u[0] * w[2], u[0] * w[1] - u[1] * w[0])

def vertex_normals(verts, tris):
    n = [[0.0, 0.0, 0.0] for _ in verts]
    for t in tris:
        tn = tri_normal(verts, t)
        for a in t:
            for k in range(3): n[a][k] += tn[k]
    out = []
    for x in n:
        l = math.sqrt(x[0] ** 2 + x[1] ** 2 + x[2] ** 2) or 1.0
        out.append((x[0] / l, x[1] / l, x[2] / l))
    return out

# ---------------------------------------------------------------- topologies
def nested(radii, sigmas, level=1, centre=(0, 0, 0), axes=(1, 1, 1), names=None, air_sigma=0.0):
    """len(radii) concentric layers, innermost first; sigmas for the len(radii) conductive layers (innermost first)"""
    n = len(radii); v0, t0 = icosphere(level)
    mesh_names = names or ["m%d" % k for k in range(n)]
    meshes = [(mesh_names[k], transform(v0, radii[k], centre, axes), list(t0)) for k in range(n)]
    interfaces = [("I%d" % k, [(+1, mesh_names[k])]) for k in range(n)]
    domains = []; cond = {}
    for k in range(n):
        b = [(-1, "I%d" % k)] + ([(+1, "I%d" % (k - 1))] if k > 0 else [])
        domains.append(("D%d" % k, b)); cond["D%d" % k] = sigmas[k]
    domains.append(("Air", [(+1, "I%d" % (n - 1))])); cond["Air"] = air_sigma
    return dict(meshes=meshes, interfaces=interfaces, domains=domains, cond=cond,
                info=dict(kind="nested", radii=list(radii), centre=centre, axes=axes, level=level, inner="D0", outer_radius=radii[-1] * max(axes)))

def split_hemispheres(r_inner, r_outer_list, sigmas_ns, sigmas_layers, level=1, centre=(0, 0, 0)):
    """HeadNNc-like: the brain is cut into NORTH/SOUTH by a disc sharing the equator vertices with both caps;
    then len(r_outer_list) nested layers outside.  Non nested, shared vertices."""
    v0, t0 = octasphere(level)
    eps = 1e-12
    vn, tn = submesh(v0, t0, lambda t: all(v0[a][2] >= -eps for a in t))
    vs, ts = submesh(v0, t0, lambda t: all(v0[a][2] <= eps for a in t))
    vc = [(x, y, 0.0) for (x, y, z) in vn]; tc = list(tn)               # north cap flattened: normal +z
    meshes = [("north", transform(vn, r_inner, centre), tn), ("south", transform(vs, r_inner, centre), ts), ("cut", transform(vc, r_inner, centre), tc)]
    interfaces = [("North", [(+1, "north"), (-1, "cut")]), ("South", [(+1, "south"), (+1, "cut")]), ("Cortex", [(+1, "north"), (+1, "south")])]
    domains = [("NORTH", [(-1, "North")]), ("SOUTH", [(-1, "South")])]
    cond = {"NORTH": sigmas_ns[0], "SOUTH": sigmas_ns[1]}
    vi, ti = icosphere(level); prev = "Cortex"
    for k, r in enumerate(r_outer_list):
        meshes.append(("shell%d" % k, transform(vi, r, centre), list(ti)))
        interfaces.append(("Shell%d" % k, [(+1, "shell%d" % k)]))
        domains.append(("L%d" % k, [(-1, "Shell%d" % k), (+1, prev)])); cond["L%d" % k] = sigmas_layers[k]; prev = "Shell%d" % k
    domains.append(("Air", [(+1, prev)])); cond["Air"] = 0.0
    return dict(meshes=meshes, interfaces=interfaces, domains=domains, cond=cond,
                info=dict(kind="split", centre=centre, level=level, inner="NORTH", inner2="SOUTH", r_inner=r_inner, outer_radius=(r_outer_list or [r_inner])[-1]))

def inclusions(r_outer, blobs, sigma_body, level=1, centre=(0, 0, 0)):
    """one outer sphere with disjoint inner spheres blobs = [(centre_offset, radius, sigma)] (sigma 0 => non-conductive
    inclusion => isolated part / current barrier).  Non nested (siblings)."""
    vi, ti = icosphere(level)
    meshes = []; interfaces = []; domains = []; cond = {}
    body = [(-1, "Outer")]
    for k, (off, r, s) in enumerate(blobs):
        c = (centre[0] + off[0], centre[1] + off[1], centre[2] + off[2])
        meshes.append(("blob%d" % k, transform(vi, r, c), list(ti)))
        interfaces.append(("B%d" % k, [(+1, "blob%d" % k)]))
        domains.append(("Blob%d" % k, [(-1, "B%d" % k)])); cond["Blob%d" % k] = s
        body.append((+1, "B%d" % k))
    meshes.append(("outer", transform(vi, r_outer, centre), list(ti)))
    interfaces.append(("Outer", [(+1, "outer")]))
    domains.append(("Body", body)); cond["Body"] = sigma_body
    domains.append(("Air", [(+1, "Outer")])); cond["Air"] = 0.0
    return dict(meshes=meshes, interfaces=interfaces, domains=domains, cond=cond,
                info=dict(kind="inclusions", centre=centre, level=level, inner="Body", outer_radius=r_outer, blobs=blobs))

def random_model(rng, level=1, kinds=("nested", "nested", "split", "inclusions", "nonconductive")):
    kind = rng.choice(list(kinds))
    def sig(): return math.exp(rng.uniform(math.log(0.01), math.log(100.0))) if rng.random() < 0.5 else rng.choice([1.0, 0.0125, 0.33, 1.79])
    if kind == "nested":
        n = rng.randint(1, 4); radii = [1.0]
        for _ in range(n - 1): radii.insert(0, radii[0] * rng.uniform(0.6, 0.95))
        m = nested(radii, [sig() for _ in range(n)], level)
    elif kind == "split":
        k = rng.randint(0, 2); ro = [1.0 * (1.15 ** (i + 1)) for i in range(k)]
        m = split_hemispheres(1.0, ro, (sig(), sig()), [sig() for _ in range(k)], level)
    elif kind == "inclusions":
        m = inclusions(1.0, [((0.45, 0, 0), 0.3, sig()), ((-0.45, 0.1, 0), 0.3, sig())], sig(), level)
    else:
        m = inclusions(1.0, [((0.4, 0, 0.1), 0.3, 0.0)] + ([((-0.45, 0, 0), 0.25, sig())] if rng.random() < 0.5 else []), sig(), level)
    m["info"]["topology"] = kind
    return m

# ---------------------------------------------------------------- motions / re-descriptions
def rational_quaternion(rng, den=7):
    """a rotation matrix with rational entries from an integer quaternion (exact orthogonality in Q)"""
    while True:
        q = [rng.randint(-den, den) for _ in range(4)]
        n = sum(x * x for x in q)
        if n: break
    a, b, c, d = q
    R = [[a * a + b * b - c * c - d * d, 2 * (b * c - a * d), 2 * (b * d + a * c)],
         [2 * (b * c + a * d), a * a - b * b + c * c - d * d, 2 * (c * d - a * b)],
         [2 * (b * d - a * c), 2 * (c * d + a * b), a * a - b * b - c * c + d * d]]
    return [[x / n for x in row] for row in R]

def apply_R(R, v): return tuple(R[i][0] * v[0] + R[i][1] * v[1] + R[i][2] * v[2] for i in range(3))

def move_model(m, R=None, t=(0, 0, 0), s=1.0):
    """rigid motion + uniform scale of every mesh: x -> s*(R x) + t"""
    R = R or [[1, 0, 0], [0, 1, 0], [0, 0, 1]]
    f = lambda v: tuple(s * c + tt for c, tt in zip(apply_R(R, v), t))
    out = dict(m); out["meshes"] = [(n, [f(v) for v in vs], ts) for n, vs, ts in m["meshes"]]
    return out

def move_points(pts, R=None, t=(0, 0, 0), s=1.0):
    R = R or [[1, 0, 0], [0, 1, 0], [0, 0, 1]]
    return [tuple(s * c + tt for c, tt in zip(apply_R(R, p), t)) for p in pts]

def move_dirs(ds, R=None):
    R = R or [[1, 0, 0], [0, 1, 0], [0, 0, 1]]
    return [apply_R(R, d) for d in ds]

def relabel_vertices(mesh, perm):
    """perm[i] = new label of old vertex i"""
    name, vs, ts = mesh
    nv = [None] * len(vs)
    for i, v in enumerate(vs): nv[perm[i]] = v
    return (name, nv, [tuple(perm[a] for a in t) for t in ts])

def flip_winding(mesh):
    name, vs, ts = mesh
    return (name, vs, [(a, c, b) for a, b, c in ts])

def rotate_triangles(mesh, rng):
    name, vs, ts = mesh; out = []
    for t in ts:
        k = rng.randint(0, 2); out.append(t[k:] + t[:k])
    return (name, vs, out)

# ---------------------------------------------------------------- files
def _f(x): return repr(float(x))        # 17 significant digits (shortest round-trip)

def write_tri(path, verts, tris):
    ns = vertex_normals(verts, tris)
    with open(path, "w") as fh:
        fh.write("- %d\n" % len(verts))
        for v, n in zip(verts, ns): fh.write(" ".join(_f(c) for c in v + n) + "\n")
        fh.write("- %d %d %d\n" % (len(tris), len(tris), len(tris)))
        for t in tris: fh.write("%d %d %d\n" % t)

def write_off(path, verts, tris):
    with open(path, "w") as fh:
        fh.write("OFF\n%d %d 0\n" % (len(verts), len(tris)))
        for v in verts: fh.write(" ".join(_f(c) for c in v) + "\n")
        for t in tris: fh.write("3 %d %d %d\n" % t)

def write_bnd(path, verts, tris):
    with open(path, "w") as fh:
        fh.write("Type= Unknown\nNumberPositions= %d\nUnitPosition\tmm\nPositions\n" % len(verts))
        for v in verts: fh.write(" ".join(_f(c) for c in v) + "\n")
        fh.write("NumberPolygons= %d\nTypePolygons=\t3\nPolygons\n" % len(tris))
        for t in tris: fh.write("%d %d %d\n" % t)

WRITERS = {"tri": write_tri, "off": write_off, "bnd": write_bnd}

def write_model(m, dirpath, fmt="tri", stem="model", geom_order=None, legacy=False):
    """writes <stem>.geom, <stem>.cond and one mesh file per mesh; returns (geom, cond) paths"""
    os.makedirs(dirpath, exist_ok=True)
    for name, vs, ts in m["meshes"]:
        WRITERS[fmt](os.path.join(dirpath, "%s.%s" % (name, fmt)), vs, ts)
    g = os.path.join(dirpath, stem + ".geom"); c = os.path.join(dirpath, stem + ".cond")
    sg = lambda s: "+" if s > 0 else "-"
    with open(g, "w") as fh:
        fh.write("# Domain Description 1.1\n\nMeshes %d\n\n" % len(m["meshes"]))
        for name, _, _ in m["meshes"]: fh.write('Mesh %s: "%s.%s"\n' % (name, name, fmt))
        fh.write("\nInterfaces %d\n\n" % len(m["interfaces"]))
        for name, ms in m["interfaces"]: fh.write("Interface %s: %s\n" % (name, " ".join(sg(s) + mn for s, mn in ms)))
        fh.write("\nDomains %d\n\n" % len(m["domains"]))
        for name, bs in m["domains"]: fh.write("Domain %s: %s\n" % (name, " ".join(sg(s) + i for s, i in bs)))
    with open(c, "w") as fh:
        fh.write("# Properties Description 1.0 (Conductivities)\n\n")
        for k, v in m["cond"].items(): fh.write("%s %s\n" % (k, _f(v)))
    return g, c

def write_dipoles(path, pos, mom):
    with open(path, "w") as fh:
        for p, q in zip(pos, mom): fh.write(" ".join(_f(c) for c in tuple(p) + tuple(q)) + "\n")

def write_points(path, pts, names=None):
    with open(path, "w") as fh:
        for k, p in enumerate(pts):
            fh.write((names[k] + " " if names else "") + " ".join(_f(c) for c in p) + "\n")

def write_squids(path, pos, ori, names=None, weights=None):
    with open(path, "w") as fh:
        for k, (p, o) in enumerate(zip(pos, ori)):
            fh.write((names[k] + " " if names else "") + " ".join(_f(c) for c in tuple(p) + tuple(o)) + (" " + _f(weights[k]) if weights else "") + "\n")

# ---------------------------------------------------------------- sources and sensors
def random_unit(rng):
    while True:
        v = (rng.uniform(-1, 1), rng.uniform(-1, 1), rng.uniform(-1, 1))
        n = math.sqrt(sum(c * c for c in v))
        if 0.1 < n <= 1: return tuple(c / n for c in v)

def dipoles_in_ball(rng, n, centre, radius, max_ecc=0.8):
    pos = []; mom = []
    for _ in range(n):
        d = random_unit(rng); r = radius * max_ecc * rng.random() ** (1 / 3.0)
        pos.append(tuple(centre[k] + r * d[k] for k in range(3))); mom.append(random_unit(rng))
    return pos, mom

def sensors_on_sphere(rng, n, centre, radius):
    return [tuple(centre[k] + radius * d[k] for k in range(3)) for d in (random_unit(rng) for _ in range(n))]
