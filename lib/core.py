"""Common plumbing of the checks: Coq build + theorem accounting, model/harness runs,
VIOLATION / KNOWN-FINDING protocol, evidence files."""
import os, sys, json, time, subprocess, re, fcntl, random, hashlib, shutil

VERIF = os.path.dirname(os.path.dirname(os.path.abspath(__file__)))
COQ = os.path.join(VERIF, "coq")
EXTRACT = os.path.join(VERIF, "extract")
sys.path.insert(0, os.path.join(VERIF, "lib"))
import ombuild

FORBIDDEN = re.compile(r"\b(Admitted|admit|Axiom|Axioms|Parameter|Parameters|Conjecture|Conjectures|Admit Obligations|Unset Guard Checking|Unset Positivity Checking|Unset Universe Checking|bypass_check|native_compute|type-in-type|impredicative-set)\b")

def sh(cmd, timeout=None, cwd=None, env=None, input=None):
    p = subprocess.run(cmd, stdout=subprocess.PIPE, stderr=subprocess.STDOUT, cwd=cwd, env=env,
                       timeout=timeout, input=input)
    return p.returncode, p.stdout.decode(errors="replace")

class Lock:
    def __init__(self, name):
        os.makedirs(ombuild.SCRATCH_ROOT, exist_ok=True)
        tag = hashlib.sha1(VERIF.encode()).hexdigest()[:8]
        self.path = os.path.join(ombuild.SCRATCH_ROOT, "%s-%s.lock" % (name, tag))
    def __enter__(self):
        self.f = open(self.path, "w"); fcntl.flock(self.f, fcntl.LOCK_EX); return self
    def __exit__(self, *a):
        fcntl.flock(self.f, fcntl.LOCK_UN); self.f.close()

def strip_comments(src):
    out = []; depth = 0; i = 0
    while i < len(src):
        if src.startswith("(*", i): depth += 1; i += 2; continue
        if src.startswith("*)", i) and depth > 0: depth -= 1; i += 2; continue
        if depth == 0: out.append(src[i])
        elif src[i] == "\n": out.append("\n")
        i += 1
    return "".join(out)

def coq_files():
    res = []
    for root, dirs, files in os.walk(COQ):
        dirs.sort()
        for f in sorted(files):
            if f.endswith(".v"):
                res.append(os.path.relpath(os.path.join(root, f), COQ))
    return res

def gate():
    """No Admitted/Axiom/... anywhere in the development (comments stripped)."""
    bad = []
    for rel in coq_files() + [os.path.join("..", "extract", "Extract.v")]:
        p = os.path.join(COQ, rel)
        if not os.path.exists(p): continue
        txt = strip_comments(open(p).read())
        for n, line in enumerate(txt.split("\n"), 1):
            m = FORBIDDEN.search(line)
            if m:
                bad.append("%s:%d: %s" % (rel, n, m.group(0)))
    return bad

def coq_make(targets=None, timeout=1500):
    """Full .vo build (never -vos) of the project or of the given targets. Returns (ok, log).
    The translators are run first, so coq/Gen/*.v always reflects /repo's current sources."""
    with Lock("coq"):
        import gencoq
        global TRANSLATOR_PROBLEMS
        TRANSLATOR_PROBLEMS = gencoq.run_all()
        files = [f for f in coq_files()]
        rc, out = sh(["coq_makefile", "-f", "_CoqProject", "-o", "Makefile"] + files, cwd=COQ)
        if rc != 0: return False, out
        cmd = ["timeout", str(timeout), "make", "-k", "-j16"] + (targets or [])
        rc, out = sh(cmd, cwd=COQ)
        return rc == 0, out

def build_model(timeout=600):
    """Extract the executable models and build the OCaml driver."""
    with Lock("extract"):
        rc, out = sh(["timeout", str(timeout), os.path.join(EXTRACT, "build.sh")], cwd=EXTRACT)
        return rc == 0, out

def model_stale():
    omm = os.path.join(EXTRACT, "omm")
    if not os.path.exists(omm): return True
    t = os.path.getmtime(omm)
    for rel in coq_files():
        if os.path.getmtime(os.path.join(COQ, rel)) > t: return True
    for f in ("gen_extract.py", "prelude.ml", "main.ml", "build.sh"):
        if os.path.getmtime(os.path.join(EXTRACT, f)) > t: return True
    return False

TRANSLATOR_PROBLEMS = []

THM = re.compile(r"^\s*(Theorem|Example)\s+([A-Za-z0-9_']+)", re.M)

def check_props(prop_file, timeout=900):
    """Compile Props/<file>.v on its own (dependencies already built) and account per theorem.
    Returns dict(theorems=[(name, ok)], assumptions={name: [axioms]}, log=str, ok=bool)."""
    path = os.path.join(COQ, prop_file)
    src = open(path).read()
    stripped = strip_comments(src)     # newlines inside comments are kept, so line numbers agree with the file
    names = [(m.group(2), stripped[:m.start()].count("\n") + 1) for m in THM.finditer(stripped)]
    with Lock("coq"):
        rc, out = sh(["timeout", str(timeout), "coqc", "-Q", ".", "OM", prop_file], cwd=COQ)
    fail_line = None
    if rc != 0:
        m = re.search(r'line (\d+), characters', out)
        fail_line = int(m.group(1)) if m else 0
    thms = []
    for k, (n, ln) in enumerate(names):
        nxt = names[k + 1][1] if k + 1 < len(names) else 10 ** 9
        ok = (rc == 0) or (fail_line is not None and nxt <= fail_line)
        thms.append((n, ok))
    # Print Assumptions output: blocks following each theorem, in order
    assumptions = {}
    blocks = re.split(r"(?=Closed under the global context|Axioms:)", out)
    pa = [b for b in blocks if b.startswith("Closed under") or b.startswith("Axioms:")]
    pnames = re.findall(r"Print Assumptions\s+([A-Za-z0-9_']+)", strip_comments(src))
    for n, b in zip(pnames, pa):
        if b.startswith("Closed"):
            assumptions[n] = []
        else:
            ax = re.findall(r"^([A-Za-z_][A-Za-z0-9_.']*)\s*:", b, re.M)
            assumptions[n] = sorted(set(a for a in ax if a not in ("Axioms", "Warning", "Error")))
    return dict(theorems=thms, assumptions=assumptions, log=out, ok=(rc == 0), fail_line=fail_line)

def _big_stack():
    """the extracted model recurses structurally (non tail-recursive list functions): give it the whole stack allowance"""
    import resource
    soft, hard = resource.getrlimit(resource.RLIMIT_STACK)
    try: resource.setrlimit(resource.RLIMIT_STACK, (hard, hard))
    except (ValueError, OSError): pass

def run_model(case_lines, timeout=None):
    """Runs the extracted model over the case lines.  With a timeout (seconds) a model that does not answer in time
    raises RuntimeError("model driver timeout ...") instead of hanging the check."""
    try:
        p = subprocess.run([os.path.join(EXTRACT, "omm")], input=("\n".join(case_lines) + "\n").encode(),
                           stdout=subprocess.PIPE, stderr=subprocess.PIPE, preexec_fn=_big_stack, timeout=timeout)
    except subprocess.TimeoutExpired:
        raise RuntimeError("model driver timeout after %s s on %d case lines (first: %s)" % (timeout, len(case_lines), case_lines[0][:80] if case_lines else ""))
    if p.returncode != 0:
        raise RuntimeError("model driver failed: " + p.stderr.decode()[-2000:])
    out = p.stdout.decode().split("\n")
    if out and out[-1] == "": out.pop()
    return out

def run_harness(binary, case_lines, workdir, timeout=600, env=None, tag="cases", max_restarts=40):
    """Runs the harness over the case lines. A crash (signal / abnormal exit) is attributed to the case being
    processed: its output becomes 'CRASH <rc>' and the harness is restarted on the following case."""
    e = dict(os.environ); e["OMP_NUM_THREADS"] = e.get("OMP_NUM_THREADS", "1"); e["OPENBLAS_NUM_THREADS"] = "1"
    if env: e.update(env)
    outs = []; errs = ""; rc_final = 0; start = 0; restarts = 0
    while start < len(case_lines):
        cf = os.path.join(workdir, tag + ".txt")
        with open(cf, "w") as fh:
            fh.write("\n".join(case_lines[start:]) + "\n")
        try:
            p = subprocess.run([binary, cf], stdout=subprocess.PIPE, stderr=subprocess.PIPE, timeout=timeout, env=e, cwd=workdir)
            rc = p.returncode; so = p.stdout; se = p.stderr
        except subprocess.TimeoutExpired as te:
            rc = -999; so = te.stdout or b""; se = te.stderr or b""
        out = so.decode(errors="replace").split("\n")
        if out and out[-1] == "": out.pop()
        n_expected = len(case_lines) - start
        if rc == 0 and len(out) == n_expected:
            outs += out; break
        # abnormal: keep complete lines, mark the next case as crashed
        out = out[:n_expected]
        if len(out) == n_expected and rc != 0:
            outs += out; rc_final = rc; errs += se.decode(errors="replace")[-1000:]; break
        outs += out
        outs.append("CRASH %d" % rc)
        errs += se.decode(errors="replace")[-1000:]
        rc_final = rc
        start += len(out) + 1
        restarts += 1
        if restarts > max_restarts:
            outs += ["CRASH skipped"] * (len(case_lines) - len(outs))
            break
    return rc_final, outs, errs

def fhex(x):
    return float(x).hex()

def fcase(comp, ints, floats):
    """case line of the float wire"""
    return "%s %s | %s" % (comp, " ".join(str(int(i)) for i in ints), " ".join(fhex(x) for x in floats))

def fparse(line):
    """'i1 i2 | x1 x2' -> ([ints], [floats]); a line without '|' has no floats; 'CRASH n' -> (None, None)"""
    if line.startswith("CRASH"): return None, None
    if "|" in line:
        a, b = line.split("|", 1)
    else:
        a, b = line, ""
    return [int(t) for t in a.split()], [float.fromhex(t) if ("x" in t or "n" in t) else float(t) for t in b.split()]

def close(a, b, rel=1e-10, scale=None, abs_=0.0):
    """rounding-class comparison: |a-b| <= rel*scale + abs_, scale defaults to max(|a|,|b|,tiny)"""
    if a != a or b != b: return (a != a) == (b != b)
    if a == b: return True
    s = scale if scale is not None else max(abs(a), abs(b))
    return abs(a - b) <= rel * s + abs_

class Findings:
    def __init__(self):
        p = os.path.join(VERIF, "known_findings.json")
        self.data = json.load(open(p)) if os.path.exists(p) else {"known": [], "fixed": []}
    def match(self, prop, signature):
        for k in self.data.get("known", []):
            if k["property"] == prop and k["signature"] == signature:
                return k
        return None

class Check:
    def __init__(self, prop, level="proof"):
        self.prop = prop; self.level = level
        self.tier = os.environ.get("VERIF_TIER", "quick")
        self.seed = int(os.environ.get("VERIF_SEED", "1"))
        self.t0 = time.time()
        self.rng = random.Random(self.seed * 1000003 + int(hashlib.sha1(prop.encode()).hexdigest()[:6], 16))
        self.violations = []       # (signature, description, replay dict, found_input)
        self.known_hits = []
        self.cov = dict(obligations=0, discharged=0, checker_cmd="", trusted_base=[], evaluations=0,
                        distinct_nontrivial=0, rule="", samples=[], explanation="")
        self.assumptions = []
        self.findings = Findings()
        self.translator_problems = []; self.broken_theorems = []; self.bdir = None
        self.notes = []
        self.workdir = os.path.join(ombuild.SCRATCH_ROOT, "w-%s-%d" % (prop, os.getpid()))
        os.makedirs(self.workdir, exist_ok=True)
        os.makedirs(os.path.join(VERIF, "evidence", "replay"), exist_ok=True)

    def log(self, *a):
        print("[%s]" % self.prop, *a, file=sys.stderr); sys.stderr.flush()

    def violation(self, signature, description, replay, found_input=True):
        k = self.findings.match(self.prop, signature)
        if k is not None:
            if signature not in [s for s, _ in self.known_hits]:
                self.known_hits.append((signature, k.get("what", description)))
            return
        if any(v[0] == signature for v in self.violations):
            return
        self.violations.append((signature, description, replay, found_input))

    def proofs(self, prop_file, axioms_allowed=()):
        """Build the project and account for the property theorems. Returns the check_props dict."""
        bad = gate()
        if bad:
            self.violation("gate", "forbidden construct in the development: " + "; ".join(bad[:5]),
                           dict(kind="gate", hits=bad), found_input=False)
        ok, log = coq_make()
        import gencoq
        mine = []
        for pr in TRANSLATOR_PROBLEMS:
            serves = gencoq.SERVES.get(pr.split(":")[0])
            if serves is None or self.prop in serves:
                mine.append(pr)          # a translator that serves this property (or all of them) could not follow the source
            else:
                self.notes.append("translator problem outside this property (%s): %s" % (",".join(serves), pr))
        self.translator_problems = mine
        if not ok:
            self.notes.append("coq make reported errors")
            open(os.path.join(self.workdir, "coq_make.log"), "w").write(log)
        res = check_props(prop_file)
        n = len([t for t in res["theorems"]]); d = len([t for t in res["theorems"] if t[1]])
        self.cov["obligations"] += n; self.cov["discharged"] += d
        self.cov["checker_cmd"] = "cd coq && coq_makefile -f _CoqProject -o Makefile <all .v> && make -k -j16 && coqc -Q . OM %s" % prop_file
        self.cov.setdefault("theorems", []).extend([dict(name=t, proved=o, axioms=res["assumptions"].get(t)) for t, o in res["theorems"]])
        allowed = set(axioms_allowed)
        for t, axs in res["assumptions"].items():
            for a in axs:
                if a not in allowed and not a.startswith(("Coq.", "ClassicalDedekindReals", "FunctionalExtensionality", "Classical")):
                    # unexpected axiom: report, never silently accept
                    if not any(a.endswith(x) for x in allowed):
                        self.notes.append("theorem %s depends on %s" % (t, a))
        self.cov["trusted_base"] = sorted(set(self.cov["trusted_base"]) | {"Coq 8.16.1 kernel (coqc, vm_compute; no native_compute)"})
        if self.tier == "thorough" and res["ok"]:
            # independent re-check of the compiled property file and everything it depends on
            mod = "OM." + prop_file[:-2].replace("/", ".")
            with Lock("coq"):
                rc, out = sh(["timeout", "2400", "coqchk", "-o", "-silent", "-Q", ".", "OM", mod], cwd=COQ)
            axs = re.findall(r"^\s+([A-Za-z_][A-Za-z0-9_.']*)\s*$", out.split("* Axioms:")[-1].split("\n* ")[0], re.M) if "* Axioms:" in out else []
            self.cov["coqchk"] = dict(module=mod, ok=(rc == 0), axioms=axs[:60], tail=out[-600:])
            if rc != 0:
                self.violation("coqchk", "coqchk rejects %s" % mod, dict(kind="coqchk", log=out[-3000:]), found_input=False)
        return res

    def prepare(self, prop_file, harness_src=None, extra_link=None, apps=True, opt="-O1"):
        """Standard opening of a check: scratch build of /repo's working tree, Coq build + theorem accounting,
        extraction, harness build.  Every failure is reported as a violation without failing input (the tie
        or the proof no longer checks).  Returns (bdir, harness_binary) - either may be None."""
        try:
            bdir, h = ombuild.ensure_build()
        except RuntimeError as e:
            self.violation("build", "the working tree does not build: %s" % e, dict(kind="build", error=str(e)), found_input=False)
            bdir = None
        self.bdir = bdir
        res = self.proofs(prop_file) if prop_file else None
        self.proof_result = res
        if res is not None:
            for pr in self.translator_problems:
                self.violation("translator:" + pr[:60], "translator could not regenerate the model from the current source: %s" % pr,
                               dict(kind="translator", problem=pr), found_input=False)
            if not res["ok"]:
                failed = [t for t, ok in res["theorems"] if not ok]
                self.broken_theorems = failed
                self.violation("proof", "property theorems no longer check: %s" % ", ".join(failed[:6]),
                               dict(kind="proof", theorems=failed, log=res["log"][-3000:]), found_input=False)
        if model_stale():
            ok, log = build_model()
            if not ok:
                self.violation("extract", "model extraction failed", dict(kind="extract", log=log[-3000:]), found_input=False)
        hb = None
        if bdir and harness_src:
            src = os.path.join(VERIF, "harness", harness_src)
            hb = os.path.join(bdir, os.path.splitext(harness_src)[0])
            deps = [src] + [os.path.join(VERIF, "harness", f) for f in os.listdir(os.path.join(VERIF, "harness")) if f.endswith(".h")]
            if not os.path.exists(hb) or os.path.getmtime(hb) < max(os.path.getmtime(d) for d in deps):
                try:
                    ombuild.build_harness(bdir, src, hb, extra=extra_link, opt=opt)
                except RuntimeError as e:
                    self.violation("harness-build", "harness does not compile against the working tree: %s" % e,
                                   dict(kind="build", error=str(e)), found_input=False)
                    hb = None
        return bdir, hb

    def drop_proof_violation_if(self, found_concrete):
        """When a concrete failing input was found for a broken proof/correspondence, the generic
        'proof' no-failing-input entry is redundant: keep the concrete one first."""
        if found_concrete:
            self.violations.sort(key=lambda v: 0 if v[3] else 1)

    def replay_path(self, n):
        return os.path.join("evidence", "replay", "%s-%d.json" % (self.prop, n))

    def finish(self):
        wall = time.time() - self.t0
        rc = 0
        for sig, what in self.known_hits:
            print("KNOWN-FINDING: property=%s %s" % (self.prop, what))
        for n, (sig, desc, replay, found) in enumerate(self.violations):
            rp = self.replay_path(n)
            replay = dict(replay); replay.update(property=self.prop, signature=sig, description=desc, seed=self.seed, tier=self.tier)
            with open(os.path.join(VERIF, rp), "w") as fh:
                json.dump(replay, fh, indent=1)
            print("VIOLATION property=%s replay=%s%s" % (self.prop, os.path.join(VERIF, rp), "" if found else " no-failing-input-found"))
            print("  " + desc)
            rc = 1
        ev = dict(property_id=self.prop, tier=self.tier if self.tier in ("quick", "thorough") else "quick",
                  seed=self.seed, level=self.level, coverage=self.cov,
                  assumptions=self.assumptions, wall_s=round(wall, 2), violations=len(self.violations))
        if self.notes: ev["coverage"]["notes"] = self.notes
        ev["coverage"]["known_findings_hit"] = [s for s, _ in self.known_hits]
        with open(os.path.join(VERIF, "evidence", "%s.json" % self.prop), "w") as fh:
            json.dump(ev, fh, indent=1)
        shutil.rmtree(self.workdir, ignore_errors=True)
        sys.stdout.flush()
        return rc
