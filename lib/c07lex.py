"""Token view of a byte string as the C++ text readers see it (C07/C19).

Emulates libstdc++'s num_get scanning for `>> double`, `>> size_t`, `>> unsigned` (C locale, basefield dec)
and std::getline splitting.  This *is* the assumed part of the text-format tie ("libc/libstdc++ lexing is
assumed, not modelled"): the Coq model only sees the view computed here.
"""
import struct

WS = b" \t\n\v\f\r"
DBL_MAX_BITS = struct.unpack("<q", struct.pack("<d", 1.7976931348623157e308))[0]

def d2w(x):
    return struct.unpack("<q", struct.pack("<d", x))[0]

def w2d(w):
    return struct.unpack("<d", struct.pack("<q", w))[0]

def skipws(s, p):
    while p < len(s) and s[p] in WS: p += 1
    return p

def extract_double(s, p):
    """-> (ok, bits, newpos).  Mirrors num_get::_M_extract_float + __convert_to_v."""
    p = skipws(s, p)
    if p >= len(s): return False, 0, p
    x = ""; n = len(s)
    c = s[p:p + 1]
    if c in (b"+", b"-"):
        x += c.decode(); p += 1
    found_mantissa = False
    while p < n and s[p:p + 1] == b"0":
        if not found_mantissa: x += "0"; found_mantissa = True
        p += 1
    found_dec = found_sci = False
    while p < n:
        c = s[p:p + 1]
        if c.isdigit():
            x += c.decode(); found_mantissa = True
        elif c == b"." and not found_dec and not found_sci:
            x += "."; found_dec = True
        elif c in (b"e", b"E") and not found_sci and found_mantissa:
            x += "e"; found_sci = True
            p += 1
            if p < n:
                c = s[p:p + 1]
                if c in (b"+", b"-"): x += c.decode()
                else: continue
            else:
                break
        else:
            break
        p += 1
    try:
        if not any(ch.isdigit() for ch in x): raise ValueError
        v = float(x)
    except ValueError:
        return False, 0, p
    if v in (float("inf"), float("-inf")):
        return False, (DBL_MAX_BITS if v > 0 else d2w(-1.7976931348623157e308)), p
    return True, d2w(v), p

def extract_uint(s, p, bits):
    """-> (ok, value, newpos).  num_get::_M_extract_int for an unsigned type, base 10."""
    p = skipws(s, p)
    n = len(s)
    if p >= n: return False, 0, p
    neg = False
    c = s[p:p + 1]
    if c in (b"+", b"-"):
        neg = (c == b"-"); p += 1
    digits = ""
    while p < n and s[p:p + 1].isdigit():
        digits += s[p:p + 1].decode(); p += 1
    if not digits: return False, 0, p
    v = int(digits)
    mx = (1 << bits) - 1
    if v > mx: return False, mx, p
    if neg: v = (-v) & mx
    return True, v, p

def line_view(raw, term):
    """one line (bytes without the newline) -> dict"""
    vals = []; p = 0
    while True:
        ok, w, p = extract_double(raw, p)
        if not ok: break
        vals.append(w)
    def triple(bits):
        oi, i, p1 = extract_uint(raw, 0, bits)
        if not oi: return None, None, None
        oj, j, p2 = extract_uint(raw, p1, bits)
        if not oj:
            # the extraction is not even attempted when the stream is at its end (sentry fails): the target keeps its
            # previous -- here uninitialised -- value.  Outside the model: reported as "i unknown".
            if p1 >= len(raw) or skipws(raw, p1) >= len(raw): return None, None, None
            return i, None, None
        ov, v, p3 = extract_double(raw, p2)
        return i, j, (v if ov else None)
    i, j, v = triple(64)
    # header of a sparse file, `>> unsigned nlin >> unsigned ncol`: on overflow the maximum is stored and the fail bit set
    # (never tested by the reader); a failed nlin leaves ncol at its previous value, the token count 2
    M32 = (1 << 32) - 1
    oi, hv, p1 = extract_uint(raw, 0, 32)
    if oi:
        oj, jv, p2 = extract_uint(raw, p1, 32)
        hl, hc = hv, (jv if oj or jv == M32 else None)
    elif hv == M32: hl, hc = M32, 2
    else: hl, hc = None, None
    return dict(empty=(len(raw) == 0), term=term, vals=vals, i=i, j=j, v=v, hnl=hl, hnc=hc)

def split_lines(b):
    """std::getline view: list of (content, terminated)"""
    out = []; parts = b.split(b"\n")
    for k, part in enumerate(parts):
        last = (k == len(parts) - 1)
        if last:
            if part != b"": out.append((part, False))
        else:
            out.append((part, True))
    return out

def tag_of(b):
    t = b[:32]
    z = t.find(b"\0")
    return t if z < 0 else t[:z]

def file_view(b):
    lines = [line_view(raw, term) for raw, term in split_lines(b)]
    ok, _, _ = extract_double(tag_of(b), 0)
    return dict(bytes=list(b), ascii=ok, lines=lines)

def opt(x):
    return [0, 0] if x is None else [1, x]

M64 = (1 << 64) - 1
def halves(w):
    """signed/unsigned 64-bit word -> [lo32, hi32] (the model driver reads 63-bit integers)"""
    u = w & M64
    return [u & 0xffffffff, u >> 32]
def join(lo, hi):
    u = lo | (hi << 32)
    return u - (1 << 64) if u >= (1 << 63) else u
def optw(x):
    return [0, 0, 0] if x is None else [1] + halves(x)

def file_wire(fv):
    w = [len(fv["bytes"])] + fv["bytes"] + [1 if fv["ascii"] else 0, len(fv["lines"])]
    for l in fv["lines"]:
        w += [1 if l["empty"] else 0, 1 if l["term"] else 0, len(l["vals"])] + [h for v in l["vals"] for h in halves(v)]
        w += optw(l["i"]) + optw(l["j"]) + optw(l["v"]) + opt(l["hnl"]) + opt(l["hnc"])
    return w

def fmt_g(w):
    """what `os << double` writes with the default precision (printf %g)"""
    return "%g" % w2d(w)

def render_tokens(wire):
    """model output of txt_encode ([0, sep, nlines, (ntok,(tag,val)*)*]) -> bytes"""
    assert wire[0] == 0
    sep = bytes([wire[1]]); nl = wire[2]; p = 3; out = []
    for _ in range(nl):
        nt = wire[p]; p += 1; toks = []
        for _ in range(nt):
            tag, lo, hi = wire[p], wire[p + 1], wire[p + 2]; p += 3
            toks.append(str(lo) if tag == 0 else fmt_g(join(lo, hi)))
        out.append(sep.join(t.encode() for t in toks) + b"\n")
    assert p == len(wire)
    return b"".join(out)


# ---------- tex (BrainVisa texture) ----------
def tex_view(b):
    """-> (wire of the token stream for TexCodec, modelled?)  A token that an extraction would consume only in part
    (e.g. "3.5" read as unsigned) is outside the token-level model."""
    lines = b.split(b"\n")
    if lines and lines[-1] == b"": lines.pop()
    w = [len(lines)]; ok = True
    for ln in lines:
        toks = ln.split()
        w.append(len(toks))
        for t in toks:
            oi, iv, pi = extract_uint(t, 0, 32)
            od, dv, pd = extract_double(t, 0)
            full_i = oi and pi == len(t); full_d = od and pd == len(t)
            if od and not full_d: ok = False      # `>> double` would succeed and stop inside the token
            # `>> unsigned` stopping inside the token (e.g. "3.5" -> 3): marked -1, the model answers "unmodelled" if it gets there
            w += opt(iv if full_i else (-1 if oi else None)) + optw(dv if full_d else None) + [1 if t.startswith(b"ascii") else 0]
    return w, ok

def starts_with_magic(b):
    """BrainVisaTextureIO::identify: the tag itself starts with the magic word (no white space skipped)"""
    return b.startswith(b"ascii")

def render_tex(wire):
    assert wire[0] == 0
    nl = wire[1]; p = 2; out = []
    for _ in range(nl):
        nt = wire[p]; p += 1; s = b""
        for _ in range(nt):
            tag, lo, hi = wire[p], wire[p + 1], wire[p + 2]; p += 3
            s += {0: lambda: str(lo).encode(), 1: lambda: b" " + fmt_g(join(lo, hi)).encode(), 2: lambda: b"ascii", 3: lambda: b"FLOAT"}[tag]()
        out.append(s + b"\n")
    return b"".join(out)
