#!/usr/bin/env python3
"""Runs every translator translators/t_*.py: each exposes generate(repo_root, out_dir) -> list of
problems (strings; empty = fine) and (re)writes its coq/Gen/*.v from /repo's *current* sources.
A file is rewritten only when its content changes (so make stays incremental)."""
import os, sys, importlib.util, glob
VERIF = os.path.dirname(os.path.dirname(os.path.abspath(__file__)))
sys.path.insert(0, os.path.join(VERIF, "lib"))
import ombuild

def put(path, txt):
    os.makedirs(os.path.dirname(path), exist_ok=True)
    if os.path.exists(path) and open(path).read() == txt: return False
    open(path, "w").write(txt); return True

SERVES = {}     # translator name -> tuple of property ids it serves (None: every property)

def run_all(only=None):
    problems = []
    out = os.path.join(VERIF, "coq", "Gen")
    os.makedirs(out, exist_ok=True)
    for p in sorted(glob.glob(os.path.join(VERIF, "translators", "t_*.py"))):
        name = os.path.basename(p)[:-3]
        if only and name not in only: continue
        spec = importlib.util.spec_from_file_location(name, p)
        mod = importlib.util.module_from_spec(spec)
        try:
            spec.loader.exec_module(mod)
            pr = mod.generate(ombuild.REPO, out) or []
        except Exception as e:
            pr = ["translator %s failed: %r" % (name, e)]
        SERVES[name] = getattr(mod, "SERVES", None)
        problems += ["%s: %s" % (name, x) for x in pr]
    return problems

if __name__ == "__main__":
    pr = run_all()
    for x in pr: print(x, file=sys.stderr)
    sys.exit(1 if pr else 0)
