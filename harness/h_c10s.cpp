// C10 harness with INJECTED INTEGER KERNELS: operators.h, assembleHeadMat.cpp and assembleSourceMat.cpp of the
// current tree are compiled in this translation unit with analyticS / analyticD3 / Integrator replaced by synthetic
// classes, so that the real block code (BlocksBase::D, DiagonalBlock/NonDiagonalBlock S, N, D, D*, addIdentity,
// PartialBlock), Details::HeadMatrix, deflate, SurfSourceMat, EITSourceMat and Surf2VolMat run on kernels whose
// values are small integers chosen by this file:  S(t1,t2) = hS(t1,t2), D(t1,t2)(i) = hD(t1,t2,i),
// S(t,p) = hS(t,P+p), D(t,p)(i) = hD'(...).  Ops as in c10_ops.h (4,5,7,9).
#include "wire.h"
#include <iomanip>
#include <map>
#include <set>
#include <algorithm>
#include <geometry.h>
#include <mesh.h>
#include <analytics.h>
#include <integrator.h>
#include <constants.h>
#include <vector.h>
#include <matrix.h>
#include <symmatrix.h>
#include <symm_block_matrix.h>
#include <sparse_matrix.h>
#include <sensors.h>
#include <danielsson.h>
#include <logger.h>
#include <progressbar.h>
#include <om_common.h>
#include <matop.h>

namespace OpenMEEG {
    // identities: triangles by address, evaluation points by exact coordinates
    static std::map<const Triangle*,ll> syn_tri;
    static std::vector<Vect3>           syn_pts;
    static const double TRI_CODE = 1048576.0, PT_CODE = 2097152.0;
    static ll syn_gid(const Triangle& t) { const auto it = syn_tri.find(&t); return (it==syn_tri.end()) ? -1 : it->second; }
    static ll syn_locate(const Vect3& x) {
        if (x.y()==0.0 && x.z()==0.0 && x.x()>=TRI_CODE && x.x()<PT_CODE) return (ll)(x.x()-TRI_CODE);
        for (size_t k=0;k<syn_pts.size();++k) if (syn_pts[k]==x) return (ll)PT_CODE+(ll)k;
        return -7;
    }
    static double hS(ll a,ll b)      { return (double)(((a*7919+b*104729+11)%17+17)%17-8); }
    static double hD(ll a,ll b,ll i) { return (double)(((a*15485863+b*32452843+i*49979687+5)%19+19)%19-9); }

    struct SynIntegrator {
        SynIntegrator(const unsigned) { }
        SynIntegrator(const unsigned,const double) { }
        SynIntegrator(const unsigned,const unsigned,const double=0.0001) { }
        template <typename Function>
        decltype(auto) integrate(const Function& function,const Triangle& triangle) const {
            return function(Vect3(TRI_CODE+syn_gid(triangle),0.0,0.0));
        }
    };
    struct SynS {
        ll g;
        SynS(const Triangle& T): g(syn_gid(T)) { }
        SynS(const Vect3&,const Vect3&,const Vect3&): g(-1) { }
        double f(const Vect3& x) const { return hS(g,syn_locate(x)); }
    };
    struct SynD3 {
        ll g;
        SynD3(const Triangle& T): g(syn_gid(T)) { }
        Vect3 f(const Vect3& x) const { const ll l = syn_locate(x); return Vect3(hD(g,l,0),hD(g,l,1),hD(g,l,2)); }
    };
}

#define analyticS  SynS
#define analyticD3 SynD3
#define Integrator SynIntegrator
#include <operators.h>
#include <assemble.h>
namespace OpenMEEG {   // declared by operators.h with the synthetic integrator, used by DipSourceMat only
    void operatorDipolePotDer(const Dipole&,const Mesh&,Vector&,const double,const SynIntegrator&) { throw std::logic_error("not in this harness"); }
    void operatorDipolePot(const Dipole&,const Mesh&,Vector&,const double,const SynIntegrator&)    { throw std::logic_error("not in this harness"); }
}
#include <assembleHeadMat.cpp>
#include <assembleSourceMat.cpp>
#undef analyticS
#undef analyticD3
#undef Integrator

#include "c10_ops.h"
using namespace OpenMEEG;

static FWire dispatch(const std::string& comp,Reader& r,FReader&) {
    if (comp!="c10") throw Reader::Malformed();
    const ll op = r.z();
    const ll model = r.z(); const bool old = r.z()!=0;
    const std::string dir = "m"+std::to_string(model);
    Geometry geo(dir+"/model.geom",dir+"/model.cond",old);
    const SynIntegrator integrator(3,0,0.005);
    c10::Kernels kf;
    kf.reg = [](const Geometry& g,const Mesh* src,const std::vector<Vect3>& pts) {
        syn_tri.clear(); syn_pts = pts; ll k = 0;
        for (const auto& m : g.meshes()) for (const auto& t : m.triangles()) syn_tri[&t] = k++;
        if (src) for (const auto& t : src->triangles()) syn_tri[&t] = k++;
    };
    kf.S  = [](const Triangle& t1,const Triangle& t2) { return hS(syn_gid(t1),syn_gid(t2)); };
    kf.D  = [](const Triangle& t1,const Triangle& t2) { const ll a = syn_gid(t2), b = syn_gid(t1); return Vect3(hD(a,b,0),hD(a,b,1),hD(a,b,2)); };
    kf.Sp = [](const Triangle& t,const Vect3&,ll pi) { return hS(syn_gid(t),(ll)PT_CODE+pi); };
    kf.Dp = [](const Triangle& t,const Vect3&,ll pi) { const ll a = syn_gid(t), l = (ll)PT_CODE+pi; return Vect3(hD(a,l,0),hD(a,l,1),hD(a,l,2)); };
    return c10::run(op,dir,geo,r,integrator,kf);
}

int main(int argc,char** argv) {
    if (argc<2) return 2;
    return run_cases_f(argv[1],dispatch);
}
