// C06 harness: EEG gain of a generated head model, loaded from files or built through the programmatic API,
// potentials re-referenced to their mean over the sensors (per source).
#include "wire.h"
#include <set>
#include <map>
#include <memory>
#include <filesystem>
#include <algorithm>
#define private public
#include <mesh.h>
#undef private
#include <geometry.h>
#include <interface.h>
#include <domain.h>
#include <sensors.h>
#include <assemble.h>
#include <gain.h>

using namespace OpenMEEG;

// api.txt:  nmesh { name nv nt  (x y z)*nv  (a b c)*nt }  ninterfaces { name n (sign meshname)*n }
//           ndomains { name cond nb (side interfacename)*nb }      side: 1 inside, 0 outside; doubles as C99 hex
static void build_api(Geometry& geo,const std::string& path) {
    std::ifstream is(path);
    if (!is) throw std::runtime_error("api file");
    auto rd = [&]() { std::string t; is >> t; return strtod(t.c_str(),nullptr); };
    size_t nm; is >> nm;
    struct M { std::string name; Vertices vs; std::vector<TriangleIndices> ts; };
    std::vector<M> ms(nm);
    for (auto& m : ms) {
        size_t nv,nt; is >> m.name >> nv >> nt;
        for (size_t k=0;k<nv;++k) { double x=rd(),y=rd(),z=rd(); m.vs.push_back(Vertex(x,y,z)); }
        for (size_t k=0;k<nt;++k) { unsigned a,b,c; is >> a >> b >> c; m.ts.push_back(TriangleIndices(a,b,c)); }
    }
    // the sequence of calls of wrapping/python/openmeeg/_make_geometry.py (make_geometry)
    geo.meshes().reserve(nm);
    std::vector<IndexMap> maps;
    for (auto& m : ms) maps.push_back(geo.add_vertices(m.vs));
    for (size_t k=0;k<nm;++k) {
        Mesh& mesh = geo.add_mesh(ms[k].name);
        mesh.reference_vertices(maps[k]);          // what Mesh::add_triangles(array,indmap) of the wrapper does first
        mesh.add(ms[k].ts,maps[k]);
        mesh.update(true);
    }
    size_t ni; is >> ni;
    std::map<std::string,std::vector<std::pair<int,std::string>>> ifs;
    for (size_t k=0;k<ni;++k) {
        std::string name; size_t n; is >> name >> n;
        for (size_t q=0;q<n;++q) { int s; std::string mn; is >> s >> mn; ifs[name].push_back({s,mn}); }
    }
    size_t nd; is >> nd;
    for (size_t k=0;k<nd;++k) {
        std::string name; size_t nb; is >> name; double cond = rd(); is >> nb;
        Domain dom(name); dom.set_conductivity(cond);
        for (size_t q=0;q<nb;++q) {
            int side; std::string in; is >> side >> in;
            Interface itf(in);
            for (auto& om : ifs.at(in))
                itf.oriented_meshes().push_back(OrientedMesh(geo.mesh(om.second),(om.first>0) ? OrientedMesh::Normal : OrientedMesh::Opposite));
            dom.boundaries().push_back(SimpleDomain(itf,side ? SimpleDomain::Inside : SimpleDomain::Outside));
        }
        geo.domains().push_back(dom);
    }
    if (!is) throw std::runtime_error("api file truncated");
    geo.finalize();
}

// ints: op(1 files / 2 api / 3 load(geom) + set_conductivity + finalize twice) id ndip nsens [old_ordering nobs ecog] | floats: dipoles (pos,moment)*ndip, sensors (xyz)*nsens
static FWire c06_gain(ll op,Reader& r,FReader& fr) {
    ll id = r.z(); size_t nd = r.n(), ns = r.n(); const bool old_ordering = !r.done() && r.z()!=0; const size_t nobs = r.done() ? 0 : r.n(); const bool ecog = !r.done() && r.z()!=0;
    Matrix dip(nd,6); for (size_t i=0;i<nd;++i) for (size_t k=0;k<6;++k) dip(i,k) = fr.x();
    Matrix pos(ns,3); for (size_t i=0;i<ns;++i) for (size_t k=0;k<3;++k) pos(i,k) = fr.x();
    Matrix obs(nobs,3); for (size_t i=0;i<nobs;++i) for (size_t k=0;k<3;++k) obs(i,k) = fr.x();
    const std::string d = "c" + std::to_string(id);
    FWire out;
    Geometry geo;
    if (op==1) geo.load(d+"/model.geom",d+"/model.cond",old_ordering);
    else if (op==3) {
        // the geometry alone is loaded (and finalized without conductivities), the conductivities are then set through the
        // API from the name/value lines of model.cond, and finalize() is called again - twice
        geo.load(d+"/model.geom");
        std::ifstream cf(d+"/model.cond"); std::string line;
        while (std::getline(cf,line)) {
            std::istringstream ls(line); std::string name; double v;
            if (!(ls >> name) || name[0]=='#' || !(ls >> v)) continue;
            for (auto& dom : geo.domains()) if (dom.name()==name && !dom.has_conductivity()) dom.set_conductivity(v);
        }
        geo.finalize(old_ordering);
        geo.finalize(old_ordering);
    }
    else       build_api(geo,d+"/api.txt");
    SymMatrix HM = HeadMat(geo);
    HM.invert();
    const Matrix DSM = DipSourceMat(geo,dip,"");
    const Sensors electrodes(pos,geo);
    const SparseMatrix H2E = Head2EEGMat(geo,electrodes);
    const GainEEG G(HM,DSM,H2E);
    out.z = Wire{ST_OK,(ll)G.nlin(),(ll)G.ncol(),(ll)geo.nb_parameters(),(ll)geo.is_nested()};
    for (size_t j=0;j<G.ncol();++j) {
        double mean = 0.0;
        for (size_t i=0;i<G.nlin();++i) mean += G(i,j);
        mean /= (double)G.nlin();
        for (size_t i=0;i<G.nlin();++i) out.f.push_back(G(i,j)-mean);
    }
    // MEG gain for squids placed radially at 1.3 times the sensor positions (magnetic field: no reference needed)
    {
        Matrix sp(ns,3), so(ns,3); Vector w(ns), rad(ns); Strings labels;
        for (size_t i=0;i<ns;++i) {
            for (size_t k=0;k<3;++k) { sp(i,k) = 1.3*pos(i,k); so(i,k) = pos(i,k); }
            w(i) = 1.0; rad(i) = 0.0; labels.push_back("s"+std::to_string(i));
        }
        const Sensors squids(labels,sp,so,w,rad);
        const Matrix H2M = Head2MEGMat(geo,squids);
        const Matrix S2M = DipSource2MEGMat(dip,squids);
        const GainMEG GM(HM,DSM,H2M,S2M);
        out.z.push_back((ll)GM.nlin());
        for (size_t j=0;j<GM.ncol();++j) for (size_t i=0;i<GM.nlin();++i) out.f.push_back(GM(i,j));
    }
    // internal-potential gain at observation points inside the conductive domains (re-referenced to their mean per source)
    if (nobs>0) {
        const Matrix S2V = Surf2VolMat(geo,obs);
        const Matrix D2V = DipSource2InternalPotMat(geo,dip,obs,"");
        const GainInternalPot GI(HM,DSM,S2V,D2V);
        out.z.push_back((ll)GI.nlin());
        for (size_t j=0;j<GI.ncol();++j) {
            double mean = 0.0;
            for (size_t i=0;i<GI.nlin();++i) mean += GI(i,j);
            mean /= (double)GI.nlin();
            for (size_t i=0;i<GI.nlin();++i) out.f.push_back(GI(i,j)-mean);
        }
    } else out.z.push_back(0);
    // innermost interface (label-free signature) and the ECoG gain taken on it without naming it (old -H2ECOGM path)
    if (ecog) {
        const Interface& inner = geo.innermost_interface();
        double sx=0,sy=0,sz=0,s2=0; ll nv=0;
        for (const auto& om : inner.oriented_meshes())
            for (const auto& vp : om.mesh().vertices()) { sx += vp->x(); sy += vp->y(); sz += vp->z(); s2 += vp->norm2(); ++nv; }
        const SparseMatrix H2C = Head2ECoGMat(geo,electrodes,inner);
        const GainEEG GC(HM,DSM,H2C);
        out.z.push_back((ll)GC.nlin()); out.z.push_back(nv);
        out.f.push_back(s2); out.f.push_back(sx); out.f.push_back(sy); out.f.push_back(sz);
        for (size_t j=0;j<GC.ncol();++j) {
            double mean = 0.0;
            for (size_t i=0;i<GC.nlin();++i) mean += GC(i,j);
            mean /= (double)GC.nlin();
            for (size_t i=0;i<GC.nlin();++i) out.f.push_back(GC(i,j)-mean);
        }
    } else { out.z.push_back(0); out.z.push_back(0); }
    return out;
}

int main(int argc,char** argv) {
    if (argc<2) return 2;
    return run_cases_f(argv[1],[](const std::string& comp,Reader& r,FReader& fr)->FWire {
        if (comp!="c06") throw Reader::Malformed();
        ll op = r.z();
        if (op==1 || op==2 || op==3) return c06_gain(op,r,fr);
        throw Reader::Malformed();
    });
}
