// Shared by h_c10.cpp (library kernels) and h_c10s.cpp (injected integer kernels, the assembly sources recompiled
// with synthetic analyticS / analyticD3 / Integrator): the assembly functions built from the blocks of operators.h.
//   c10 4 <model> <old>   SurfSourceMat(geo, m<model>/src.tri)
//   c10 5 <model> <old>   EITSourceMat(geo, Sensors(m<model>/elec.txt, geo))
//   c10 6 <model> <old>   Head2MEGMat(geo, Sensors(m<model>/squids.txt))
//   c10 7 <model> <old>   Surf2VolMat(geo, Matrix(m<model>/pts.txt))
//   c10 8 <model> <old>   Head2ECoGMat(geo, Sensors(m<model>/ecog.txt), interface #<k>)   (extra int k)
//   c10 9 <model> <old>   HeadMat(geo) with kernel tables (same layout as op 1)
// Output = the input of the model (coq/Geom/RunC10Ops.v) followed by the matrix the library computed.
#pragma once
#include <danielsson.h>
#include <sensors.h>

namespace c10 {
using namespace OpenMEEG;

struct Kernels {   // how this translation unit obtains kernel values
    std::function<double(const Triangle& t1,const Triangle& t2)> S;            // integrate(analyticS(t1),t2)
    std::function<Vect3(const Triangle& t1,const Triangle& t2)>  D;            // integrate(analyticD3(t2),t1)
    std::function<double(const Triangle& t,const Vect3& p,ll pi)> Sp;          // analyticS(t).f(p)
    std::function<Vect3(const Triangle& t,const Vect3& p,ll pi)>  Dp;          // analyticD3(t).f(p)
    std::function<void(const Geometry&,const Mesh*,const std::vector<Vect3>&)> reg;  // register identities (synthetic kernels)
};

static ll vid(const Geometry& geo,const Vertex& v) { return &v-&geo.vertices()[0]; }
static ll mid(const Geometry& geo,const Mesh& m)   { return &m-&geo.meshes()[0]; }

static void shape_mesh(const Mesh& m,Wire& z,const std::function<ll(const Vertex&)>& id) {
    z.push_back((ll)m.vertices().size());
    for (const auto& vp : m.vertices()) z.push_back(id(*vp));
    z.push_back((ll)m.triangles().size());
    for (const auto& t : m.triangles()) {
        for (unsigned i=0;i<3;++i) z.push_back(id(t.vertex(i)));
        z.push_back((ll)t.index());
    }
    z.push_back(m.outermost()); z.push_back(m.current_barrier()); z.push_back(m.isolated());
}

// indexed geometry, optionally with a source mesh appended as one more mesh (its vertices appended to the vertex table)
static void shape(const Geometry& geo,const Mesh* src,Wire& z) {
    const ll nv = geo.vertices().size();
    z.push_back(nv+(src ? (ll)src->vertices().size() : 0));
    for (const auto& v : geo.vertices()) z.push_back((ll)v.index());
    std::map<const Vertex*,ll> sid;
    if (src) { ll k=0; for (const auto& vp : src->vertices()) { sid[vp] = nv+k++; z.push_back((ll)vp->index()); } }
    z.push_back((ll)geo.meshes().size()+(src ? 1 : 0));
    for (const auto& m : geo.meshes()) shape_mesh(m,z,[&](const Vertex& v) { return vid(geo,v); });
    if (src) shape_mesh(*src,z,[&](const Vertex& v) { return sid.at(&v); });
    z.push_back((ll)geo.communicating_mesh_pairs().size());
    for (const auto& mp : geo.communicating_mesh_pairs()) {
        z.push_back(mid(geo,mp(0))); z.push_back(mid(geo,mp(1))); z.push_back(mp.relative_orientation());
    }
    z.push_back((ll)geo.isolated_parts().size());
    for (const auto& part : geo.isolated_parts()) {
        z.push_back((ll)part.size());
        for (const auto& mp : part) z.push_back(mid(geo,*mp));
    }
    z.push_back((ll)geo.nb_parameters()); z.push_back((ll)geo.nb_current_barrier_triangles());
}

static void common_floats(const Geometry& geo,const Mesh* src,std::vector<double>& f) {
    f.push_back(K);
    for (const auto& v : geo.vertices()) { f.push_back(v.x()); f.push_back(v.y()); f.push_back(v.z()); }
    if (src) for (const auto& vp : src->vertices()) { f.push_back(vp->x()); f.push_back(vp->y()); f.push_back(vp->z()); }
    for (const auto& m : geo.meshes()) for (const auto& t : m.triangles()) f.push_back(t.area());
    if (src) for (const auto& t : src->triangles()) f.push_back(t.area());
    for (const auto& mp : geo.communicating_mesh_pairs()) {
        f.push_back(geo.sigma(mp(0),mp(1))); f.push_back(geo.sigma_inv(mp(0),mp(1))); f.push_back(geo.indicator(mp(0),mp(1)));
    }
}
static void tab_S(const Kernels& kf,const Mesh& m1,const Mesh& m2,std::vector<double>& f) {
    for (const auto& t1 : m1.triangles()) for (const auto& t2 : m2.triangles()) f.push_back(kf.S(t1,t2));
}
static void tab_D(const Kernels& kf,const Mesh& m1,const Mesh& m2,std::vector<double>& f) {
    for (const auto& t1 : m1.triangles()) for (const auto& t2 : m2.triangles()) { const Vect3 d = kf.D(t1,t2); for (unsigned i=0;i<3;++i) f.push_back(d(i)); }
}
static void pair_tables(const Kernels& kf,const Geometry& geo,std::vector<double>& f) {
    for (const auto& mp : geo.communicating_mesh_pairs()) {
        tab_S(kf,mp(0),mp(1),f); tab_D(kf,mp(0),mp(1),f);
        if (&mp(0)!=&mp(1)) tab_D(kf,mp(1),mp(0),f);
    }
}
static void out_matrix(const Matrix& M,FWire& out) {
    out.z.push_back((ll)M.nlin()); out.z.push_back((ll)M.ncol());
    for (size_t j=0;j<M.ncol();++j) for (size_t i=0;i<M.nlin();++i) out.f.push_back(M(i,j));
}

template <typename INTG>
static FWire run(const ll op,const std::string& dir,Geometry& geo,Reader& r,const INTG& integrator,const Kernels& kf) {
    FWire out; out.z.push_back(ST_OK);
    if (op==9) {
        kf.reg(geo,nullptr,{});
        shape(geo,nullptr,out.z); common_floats(geo,nullptr,out.f); pair_tables(kf,geo,out.f);
        const SymMatrix H = HeadMat(geo,integrator);
        out.z.push_back((ll)H.nlin());
        for (size_t k=0;k<H.size();++k) out.f.push_back(H.data()[k]);
        return out;
    }
    if (op==4) {
        Mesh src((dir+"/src.tri").c_str());
        kf.reg(geo,&src,{});
        const Domain& domain = geo.domain(*src.vertices().front());
        shape(geo,&src,out.z);
        out.z.push_back((ll)geo.meshes().size());            // number of the source mesh
        Wire b;
        for (const auto& boundary : domain.boundaries())
            for (const auto& om : boundary.interface().oriented_meshes()) { b.push_back(mid(geo,om.mesh())); b.push_back(om.orientation()); b.push_back(boundary.inside()); }
        out.z.push_back((ll)b.size()/3); out.z.insert(out.z.end(),b.begin(),b.end());
        common_floats(geo,&src,out.f);
        out.f.push_back(domain.conductivity());
        for (const auto& boundary : domain.boundaries())
            for (const auto& om : boundary.interface().oriented_meshes()) { tab_S(kf,om.mesh(),src,out.f); tab_D(kf,om.mesh(),src,out.f); }
        try { const Matrix M = SurfSourceMat(geo,src,integrator); out_matrix(M,out); }
        catch (std::invalid_argument&) { out.z[0] = ST_ASSERT; out.z.push_back(-1); out.z.push_back(-1); }
        return out;
    }
    if (op==5) {
        kf.reg(geo,nullptr,{});
        const Sensors el((dir+"/elec.txt").c_str(),geo);
        shape(geo,nullptr,out.z);
        const size_t ne = el.getNumberOfSensors();
        out.z.push_back((ll)ne);
        common_floats(geo,nullptr,out.f);
        for (size_t e=0;e<ne;++e) {
            const Triangles ts = el.getInjectionTriangles(e);
            out.z.push_back((ll)ts.size());
            for (const auto& t : ts) {
                out.z.push_back((ll)t.index());
                out.f.push_back(almost_equal(el.getRadii()(e),0.0) ? 1.0/t.area() : el.getWeights()(e));
            }
        }
        pair_tables(kf,geo,out.f);
        try { const Matrix M = EITSourceMat(geo,el,integrator); out_matrix(M,out); }
        catch (std::invalid_argument&) { out.z[0] = ST_ASSERT; out.z.push_back(-1); out.z.push_back(-1); }
        return out;
    }
    if (op==7) {
        const Matrix pts((dir+"/pts.txt").c_str());
        // the same classification as Surf2VolMat: kept points are numbered in input order
        std::map<const Domain*,std::vector<std::pair<ll,Vect3>>> byd; ll index = 0; std::vector<Vect3> kept;
        for (unsigned i=0;i<pts.nlin();++i) {
            const Vect3 p(pts(i,0),pts(i,1),pts(i,2));
            const Domain& d = geo.domain(p);
            if (d.conductivity()!=0.0) { byd[&d].push_back({index++,p}); kept.push_back(p); }
        }
        kf.reg(geo,nullptr,kept);
        shape(geo,nullptr,out.z);
        out.z.push_back((ll)byd.size());
        common_floats(geo,nullptr,out.f);
        for (const auto& [dp,ps] : byd) out.f.push_back(dp->conductivity());
        for (const auto& [dp,ps] : byd) {
            Wire b;
            for (const auto& boundary : dp->boundaries())
                for (const auto& om : boundary.interface().oriented_meshes()) { b.push_back(mid(geo,om.mesh())); b.push_back(boundary.mesh_orientation(om)); }
            out.z.push_back((ll)b.size()/2); out.z.insert(out.z.end(),b.begin(),b.end());
            out.z.push_back((ll)ps.size()); for (const auto& q : ps) out.z.push_back(q.first);
            for (const auto& boundary : dp->boundaries())
                for (const auto& om : boundary.interface().oriented_meshes()) {
                    const Mesh& m = om.mesh();
                    for (const auto& t : m.triangles()) for (const auto& q : ps) { const Vect3 d = kf.Dp(t,q.second,q.first); for (unsigned i=0;i<3;++i) out.f.push_back(d(i)); }
                    if (!m.current_barrier()) for (const auto& t : m.triangles()) for (const auto& q : ps) out.f.push_back(kf.Sp(t,q.second,q.first));
                }
        }
        out.z.push_back(index);
        try { const Matrix M = Surf2VolMat(geo,pts); out_matrix(M,out); }
        catch (std::invalid_argument&) { out.z[0] = ST_ASSERT; out.z.push_back(-1); out.z.push_back(-1); }
        return out;
    }
    throw Reader::Malformed();
}
}
