// C13 (and accessor half of C18) harness: Vector / Matrix / SymMatrix of the current /repo tree.
#include <vector.h>
#include <matrix.h>
#include <symmatrix.h>
#include <sparse_matrix.h>
#include <sys/resource.h>
#include "wire.h"

using namespace OpenMEEG;
typedef unsigned U;

static Vector getVec(Reader& r) { size_t n=r.n(); Vector v(n); for (size_t k=0;k<n;++k) v(k)=(double)r.z(); return v; }
static Matrix getDense(Reader& r) { size_t nl=r.n(), nc=r.n(); Matrix M(nl,nc); for (size_t k=0;k<nl*nc;++k) M.data()[k]=(double)r.z(); return M; }
static SymMatrix getSym(Reader& r) { size_t n=r.n(); SymMatrix S(n); for (size_t k=0;k<n*(n+1)/2;++k) S.data()[k]=(double)r.z(); return S; }
static U getU(Reader& r) { ll v=r.z(); if (v<0 || v>4294967295LL) throw Reader::Malformed(); return (U)v; }

static Wire outVec(const Vector& v) { Wire o{ST_OK,(ll)v.size()}; for (size_t k=0;k<v.size();++k) o.push_back(exact(v.data()[k])); return o; }
static Wire outDense(const Matrix& M) { Wire o{ST_OK,(ll)M.nlin(),(ll)M.ncol()}; for (size_t k=0;k<M.size();++k) o.push_back(exact(M.data()[k])); return o; }
static Wire outSym(const SymMatrix& S) { Wire o{ST_OK,(ll)S.nlin()}; for (size_t k=0;k<S.size();++k) o.push_back(exact(S.data()[k])); return o; }
static Wire outZ(double d) { return Wire{ST_OK,exact(d)}; }

template <typename T> static std::vector<double> snap(const T& x) { return std::vector<double>(x.data(),x.data()+x.size()); }
template <typename T> static bool same(const T& x,const std::vector<double>& s,size_t nl,size_t nc) {
    if (x.nlin()!=nl || x.ncol()!=nc || x.size()!=s.size()) return false;
    return s.empty() || memcmp(x.data(),s.data(),s.size()*sizeof(double))==0;
}
// run f; operands a (and b) must be untouched afterwards; 99 is appended when one was modified
template <typename A,typename F> static Wire pure1(const A& a,F f) {
    auto sa=snap(a); size_t nl=a.nlin(), nc=a.ncol();
    Wire o;
    try { o=f(); } catch (std::invalid_argument&) { o=Wire{ST_ASSERT}; } catch (std::bad_alloc&) { o=Wire{ST_ASSERT}; }
    if (!same(a,sa,nl,nc)) o.push_back(99);
    return o;
}
template <typename A,typename B,typename F> static Wire pure2(const A& a,const B& b,F f) {
    auto sb=snap(b); size_t nl=b.nlin(), nc=b.ncol();
    Wire o=pure1(a,f);
    if (!same(b,sb,nl,nc)) o.push_back(99);
    return o;
}

static Wire c13(Reader& r) {
    ll op=r.z();
    switch (op) {
    case 1: { Matrix M=getDense(r); U i=getU(r), j=getU(r); const Matrix& C=M; return pure1(M,[&]{ return outZ(C(i,j)); }); }
    case 2: { Matrix M=getDense(r); U i=getU(r), j=getU(r); ll v=r.z(); return pure1(Vector(0),[&]{ M(i,j)=(double)v; return outDense(M); }); }
    case 3: { Matrix M=getDense(r); U a=getU(r),b=getU(r),c=getU(r),d=getU(r); return pure1(M,[&]{ return outDense(M.submat(a,b,c,d)); }); }
    case 4: { Matrix M=getDense(r); U a=getU(r),b=getU(r); Matrix B=getDense(r); return pure1(B,[&]{ M.insertmat(a,b,B); return outDense(M); }); }
    case 5: { Matrix M=getDense(r); U j=getU(r); return pure1(M,[&]{ return outVec(M.getcol(j)); }); }
    case 6: { Matrix M=getDense(r); U j=getU(r); Vector v=getVec(r); return pure1(v,[&]{ M.setcol(j,v); return outDense(M); }); }
    case 7: { Matrix M=getDense(r); U i=getU(r); return pure1(M,[&]{ return outVec(M.getlin(i)); }); }
    case 8: { Matrix M=getDense(r); U i=getU(r); Vector v=getVec(r); return pure1(v,[&]{ M.setlin(i,v); return outDense(M); }); }
    case 9: { Matrix A=getDense(r), B=getDense(r); return pure2(A,B,[&]{ return outDense(A*B); }); }
    case 10:{ Matrix A=getDense(r); SymMatrix B=getSym(r); return pure2(A,B,[&]{ return outDense(A*B); }); }
    case 11:{ Matrix A=getDense(r), B=getDense(r); return pure2(A,B,[&]{ return outDense(A+B); }); }
    case 12:{ Matrix A=getDense(r), B=getDense(r); return pure2(A,B,[&]{ return outDense(A-B); }); }
    case 13:{ Matrix A=getDense(r); ll x=r.z(); return pure1(A,[&]{ return outDense(A*(double)x); }); }
    case 14:{ Matrix A=getDense(r), B=getDense(r); return pure1(B,[&]{ A+=B; return outDense(A); }); }
    case 15:{ Matrix A=getDense(r), B=getDense(r); return pure1(B,[&]{ A-=B; return outDense(A); }); }
    case 16:{ Matrix A=getDense(r); ll x=r.z(); return pure1(Vector(0),[&]{ A*=(double)x; return outDense(A); }); }
    case 17:{ Matrix A=getDense(r); Vector v=getVec(r); return pure2(A,v,[&]{ return outVec(A*v); }); }
    case 18:{ Matrix A=getDense(r); Vector v=getVec(r); return pure2(A,v,[&]{ return outVec(A.tmult(v)); }); }
    case 19:{ Matrix A=getDense(r), B=getDense(r); return pure2(A,B,[&]{ return outDense(A.tmult(B)); }); }
    case 20:{ Matrix A=getDense(r), B=getDense(r); return pure2(A,B,[&]{ return outDense(A.multt(B)); }); }
    case 21:{ Matrix A=getDense(r), B=getDense(r); return pure2(A,B,[&]{ return outDense(A.tmultt(B)); }); }
    case 22:{ Matrix A=getDense(r); return pure1(A,[&]{ return outDense(A.transpose()); }); }
    case 23:{ Matrix A=getDense(r); return pure1(A,[&]{ double f=A.frobenius_norm(); return Wire{ST_OK,(ll)std::llround(f*f)}; }); }
    case 24:{ Matrix A=getDense(r), B=getDense(r); return pure2(A,B,[&]{ return outZ(A.dot(B)); }); }
    case 25:{ Matrix A=getDense(r); ll x=r.z(); return pure1(Vector(0),[&]{ A.set((double)x); return outDense(A); }); }
    case 26:{ SymMatrix S=getSym(r); return pure1(S,[&]{ return outDense(Matrix(S)); }); }
    case 27:{ Vector v=getVec(r); size_t m=r.n(), n=r.n(); return pure1(v,[&]{ return outDense(Matrix(v,m,n)); }); }
    case 30:{ Vector v=getVec(r); U i=getU(r); const Vector& c=v; return pure1(v,[&]{ return outZ(c(i)); }); }
    case 31:{ Vector u=getVec(r), v=getVec(r); return pure2(u,v,[&]{ return outVec(u+v); }); }
    case 32:{ Vector u=getVec(r), v=getVec(r); return pure2(u,v,[&]{ return outVec(u-v); }); }
    case 33:{ Vector u=getVec(r); return pure1(u,[&]{ return outVec(-u); }); }
    case 34:{ Vector u=getVec(r); ll x=r.z(); return pure1(u,[&]{ return outVec(u*(double)x); }); }
    case 35:{ Vector u=getVec(r); ll x=r.z(); return pure1(u,[&]{ return outVec(u+(double)x); }); }
    case 36:{ Vector u=getVec(r); ll x=r.z(); return pure1(u,[&]{ return outVec(u-(double)x); }); }
    case 37:{ Vector u=getVec(r), v=getVec(r); return pure2(u,v,[&]{ return outZ(u*v); }); }
    case 38:{ Vector u=getVec(r), v=getVec(r); return pure2(u,v,[&]{ return outVec(u.kmult(v)); }); }
    case 39:{ Vector u=getVec(r), v=getVec(r); return pure2(u,v,[&]{ return outDense(u.outer_product(v)); }); }
    case 40:{ Vector u=getVec(r); return pure1(u,[&]{ return outZ(u.sum()); }); }
    case 41:{ Vector u=getVec(r); return pure1(u,[&]{ double f=u.norm(); return Wire{ST_OK,(ll)std::llround(f*f)}; }); }
    case 42:{ Vector u=getVec(r); U a=getU(r), b=getU(r); return pure1(u,[&]{ return outVec(u.subvect(a,b)); }); }
    case 43:{ Vector v=getVec(r); Matrix M=getDense(r); return pure2(v,M,[&]{ return outVec(v*M); }); }
    case 44:{ Vector u=getVec(r), v=getVec(r); return pure1(v,[&]{ u+=v; return outVec(u); }); }
    case 45:{ Vector u=getVec(r), v=getVec(r); return pure1(v,[&]{ u-=v; return outVec(u); }); }
    case 46:{ Vector u=getVec(r); ll x=r.z(); return pure1(Vector(0),[&]{ u*=(double)x; return outVec(u); }); }
    case 47:{ Vector u=getVec(r); ll x=r.z(); return pure1(Vector(0),[&]{ u.set((double)x); return outVec(u); }); }
    case 50:{ SymMatrix S=getSym(r); U i=getU(r), j=getU(r); const SymMatrix& C=S; return pure1(S,[&]{ return outZ(C(i,j)); }); }
    case 51:{ SymMatrix S=getSym(r); U i=getU(r), j=getU(r); ll v=r.z(); return pure1(Vector(0),[&]{ S(i,j)=(double)v; return outSym(S); }); }
    case 52:{ SymMatrix S=getSym(r); U i=getU(r); return pure1(S,[&]{ return outVec(S.getlin(i)); }); }
    case 53:{ SymMatrix S=getSym(r); U i=getU(r); Vector v=getVec(r); return pure1(v,[&]{ S.setlin(i,v); return outSym(S); }); }
    case 54:{ SymMatrix S=getSym(r); U a=getU(r),b=getU(r),c=getU(r),d=getU(r); return pure1(S,[&]{ return outDense(S.submat(a,b,c,d)); }); }
    case 55:{ SymMatrix S=getSym(r); U a=getU(r),b=getU(r); return pure1(S,[&]{ return outSym(S.submat(a,b)); }); }
    case 56:{ SymMatrix A=getSym(r), B=getSym(r); return pure2(A,B,[&]{ return outSym(A+B); }); }
    case 57:{ SymMatrix A=getSym(r), B=getSym(r); return pure2(A,B,[&]{ return outSym(A-B); }); }
    case 58:{ SymMatrix A=getSym(r), B=getSym(r); return pure2(A,B,[&]{ return outDense(A*B); }); }
    case 59:{ SymMatrix A=getSym(r); Matrix B=getDense(r); return pure2(A,B,[&]{ return outDense(A*B); }); }
    case 60:{ SymMatrix A=getSym(r); Vector v=getVec(r); return pure2(A,v,[&]{ return outVec(A*v); }); }
    case 61:{ SymMatrix A=getSym(r); ll x=r.z(); return pure1(A,[&]{ return outSym(A*(double)x); }); }
    case 62:{ SymMatrix A=getSym(r), B=getSym(r); return pure1(B,[&]{ A+=B; return outSym(A); }); }
    case 63:{ SymMatrix A=getSym(r), B=getSym(r); return pure1(B,[&]{ A-=B; return outSym(A); }); }
    case 64:{ SymMatrix A=getSym(r); ll x=r.z(); return pure1(Vector(0),[&]{ A*=(double)x; return outSym(A); }); }
    case 65:{ Matrix M=getDense(r); return pure1(M,[&]{ return outSym(SymMatrix(M)); }); }
    case 66:{ SymMatrix S=getSym(r); U a=getU(r),b=getU(r),c=getU(r),d=getU(r); return pure1(S,[&]{ return outDense(S(a,b,c,d)); }); }
    }
    return Wire{-1};
}

int main(int argc,char** argv) {
    if (argc<2) return 2;
    struct rlimit rl; rl.rlim_cur=rl.rlim_max=(rlim_t)6<<30; setrlimit(RLIMIT_AS,&rl);
    return run_cases(argv[1],[&](const std::string& comp,Reader& r)->Wire { if (comp=="c13") return c13(r); return Wire{-2}; });
}
