// C13 (and accessor half of C18) harness: Vector / Matrix / SymMatrix of the current /repo tree.
#include <vector.h>
#include <matrix.h>
#include <symmatrix.h>
#include <sparse_matrix.h>
#include <sys/resource.h>
#include "wire.h"
#include <new>

// Every array the library allocates is filled with 0xFF bytes (a NaN pattern): a result cell that no routine
// wrote, or a read of uninitialised memory that reaches the output, is then visible (exact() reports it).
// OpenBLAS reports illegal parameters through xerbla_ on stdout, which would corrupt the result stream: the harness
// provides its own (counting) definition; the routine still returns without computing, which is what is observed.
static long xerbla_calls=0;
extern "C" int xerbla_(char*,int*,int) { ++xerbla_calls; return 0; }
void* operator new[](size_t n) { void* p=malloc(n?n:1); if (!p) throw std::bad_alloc(); memset(p,0xFF,n); return p; }
void operator delete[](void* p) noexcept { free(p); }
void operator delete[](void* p,size_t) noexcept { free(p); }

using namespace OpenMEEG;
typedef unsigned U;

static Vector getVec(Reader& r) { size_t n=r.n(); Vector v(n); for (size_t k=0;k<n;++k) v(k)=(double)r.z(); return v; }
static Matrix getDense(Reader& r) { size_t nl=r.n(), nc=r.n(); Matrix M(nl,nc); for (size_t k=0;k<nl*nc;++k) M.data()[k]=(double)r.z(); return M; }
static SymMatrix getSym(Reader& r) { size_t n=r.n(); SymMatrix S(n); for (size_t k=0;k<n*(n+1)/2;++k) S.data()[k]=(double)r.z(); return S; }
static U getU(Reader& r) { ll v=r.z(); if (v<0 || v>4294967295LL) throw Reader::Malformed(); return (U)v; }

static Wire outVec(const Vector& v) { Wire o{ST_OK,(ll)v.size()}; for (size_t k=0;k<v.size();++k) o.push_back(exact(v.data()[k])); return o; }
static Wire outDense(const Matrix& M) { Wire o{ST_OK,(ll)M.nlin(),(ll)M.ncol()}; for (size_t k=0;k<M.size();++k) o.push_back(exact(M.data()[k])); return o; }
static Wire outSym(const SymMatrix& S) { Wire o{ST_OK,(ll)S.nlin()}; for (size_t k=0;k<S.size();++k) o.push_back(exact(S.data()[k])); return o; }
static Wire outZ(double d) { return Wire{ST_OK,exact(d)}; }

template <typename T> static std::vector<double> snap(const T& x) { return std::vector<double>(x.data(),x.data()+x.size()); }
template <typename T> static bool same(const T& x,const std::vector<double>& s,size_t nl,size_t nc) {
    if (x.nlin()!=nl || x.ncol()!=nc || x.size()!=s.size()) return false;
    return s.empty() || memcmp(x.data(),s.data(),s.size()*sizeof(double))==0;
}
// run f; operands a (and b) must be untouched afterwards; 99 is appended when one was modified
template <typename A,typename F> static Wire pure1(const A& a,F f) {
    auto sa=snap(a); size_t nl=a.nlin(), nc=a.ncol();
    Wire o;
    try { o=f(); } catch (std::invalid_argument&) { o=Wire{ST_ASSERT}; } catch (std::bad_alloc&) { o=Wire{ST_ASSERT}; }
    if (!same(a,sa,nl,nc)) o.push_back(99);
    return o;
}
template <typename A,typename B,typename F> static Wire pure2(const A& a,const B& b,F f) {
    auto sb=snap(b); size_t nl=b.nlin(), nc=b.ncol();
    Wire o=pure1(a,f);
    if (!same(b,sb,nl,nc)) o.push_back(99);
    return o;
}


// Result of a method that returns a NEW object: (a) writing into the result leaves every operand bitwise unchanged,
// (b) writing into an operand leaves the result unchanged, and the buffers are distinct.  Markers: 98 = (a) violated or
// shared buffer, 97 = (b) violated.  Operands are restored afterwards.
static Wire outOf(const Vector& v) { return outVec(v); }
static Wire outOf(const Matrix& M) { return outDense(M); }
static Wire outOf(const SymMatrix& S) { return outSym(S); }
template <typename T> static void poke(const T& x) { for (size_t k=0;k<x.size();++k) x.data()[k]=x.data()[k]*2.0+1.0; }
template <typename T> static bool unchanged(const T& x,const std::vector<double>& s) { return x.size()==s.size() && (s.empty() || memcmp(x.data(),s.data(),s.size()*sizeof(double))==0); }
template <typename T> static void restore(const T& x,const std::vector<double>& s) { if (!s.empty()) memcpy(x.data(),s.data(),s.size()*sizeof(double)); }
template <typename R> static Wire fresh(const R& res) { return outOf(res); }
template <typename R,typename A> static Wire fresh(const R& res,const A& a) {
    Wire o=outOf(res); bool bad_a=false, bad_b=false;
    if (res.size()>0 && a.size()>0 && (const void*)res.data()==(const void*)a.data()) bad_a=true;
    auto sa=snap(a); poke(res); if (!unchanged(a,sa)) bad_a=true; restore(a,sa);
    auto sr=snap(res); poke(a); if (!unchanged(res,sr)) bad_b=true; restore(a,sa);
    if (bad_a) o.push_back(98); if (bad_b) o.push_back(97); return o;
}
template <typename R,typename A,typename B> static Wire fresh(const R& res,const A& a,const B& b) {
    Wire o=outOf(res); bool bad_a=false, bad_b=false;
    if (res.size()>0 && ((a.size()>0 && (const void*)res.data()==(const void*)a.data()) || (b.size()>0 && (const void*)res.data()==(const void*)b.data()))) bad_a=true;
    auto sa=snap(a); auto sb=snap(b); poke(res); if (!unchanged(a,sa) || !unchanged(b,sb)) bad_a=true; restore(a,sa); restore(b,sb);
    auto sr=snap(res); poke(a); poke(b); if (!unchanged(res,sr)) bad_b=true; restore(a,sa); restore(b,sb);
    if (bad_a) o.push_back(98); if (bad_b) o.push_back(97); return o;
}

static Wire c13(Reader& r) {
    ll op=r.z();
    switch (op) {
    case 1: { Matrix M=getDense(r); U i=getU(r), j=getU(r); const Matrix& C=M; return pure1(M,[&]{ return outZ(C(i,j)); }); }
    case 2: { Matrix M=getDense(r); U i=getU(r), j=getU(r); ll v=r.z(); return pure1(Vector(0),[&]{ M(i,j)=(double)v; return outDense(M); }); }
    case 3: { Matrix M=getDense(r); U a=getU(r),b=getU(r),c=getU(r),d=getU(r); return pure1(M,[&]{ return fresh(M.submat(a,b,c,d),M); }); }
    case 4: { Matrix M=getDense(r); U a=getU(r),b=getU(r); Matrix B=getDense(r); return pure1(B,[&]{ M.insertmat(a,b,B); return outDense(M); }); }
    case 5: { Matrix M=getDense(r); U j=getU(r); return pure1(M,[&]{ return fresh(M.getcol(j),M); }); }
    case 6: { Matrix M=getDense(r); U j=getU(r); Vector v=getVec(r); return pure1(v,[&]{ M.setcol(j,v); return outDense(M); }); }
    case 7: { Matrix M=getDense(r); U i=getU(r); return pure1(M,[&]{ return fresh(M.getlin(i),M); }); }
    case 8: { Matrix M=getDense(r); U i=getU(r); Vector v=getVec(r); return pure1(v,[&]{ M.setlin(i,v); return outDense(M); }); }
    case 9: { Matrix A=getDense(r), B=getDense(r); return pure2(A,B,[&]{ return fresh(A*B,A,B); }); }
    case 10:{ Matrix A=getDense(r); SymMatrix B=getSym(r); return pure2(A,B,[&]{ return fresh(A*B,A,B); }); }
    case 11:{ Matrix A=getDense(r), B=getDense(r); return pure2(A,B,[&]{ return fresh(A+B,A,B); }); }
    case 12:{ Matrix A=getDense(r), B=getDense(r); return pure2(A,B,[&]{ return fresh(A-B,A,B); }); }
    case 13:{ Matrix A=getDense(r); ll x=r.z(); return pure1(A,[&]{ return fresh(A*(double)x,A); }); }
    case 14:{ Matrix A=getDense(r), B=getDense(r); return pure1(B,[&]{ A+=B; return outDense(A); }); }
    case 15:{ Matrix A=getDense(r), B=getDense(r); return pure1(B,[&]{ A-=B; return outDense(A); }); }
    case 16:{ Matrix A=getDense(r); ll x=r.z(); return pure1(Vector(0),[&]{ A*=(double)x; return outDense(A); }); }
    case 17:{ Matrix A=getDense(r); Vector v=getVec(r); return pure2(A,v,[&]{ return fresh(A*v,A,v); }); }
    case 18:{ Matrix A=getDense(r); Vector v=getVec(r); return pure2(A,v,[&]{ return fresh(A.tmult(v),A,v); }); }
    case 19:{ Matrix A=getDense(r), B=getDense(r); return pure2(A,B,[&]{ return fresh(A.tmult(B),A,B); }); }
    case 20:{ Matrix A=getDense(r), B=getDense(r); return pure2(A,B,[&]{ return fresh(A.multt(B),A,B); }); }
    case 21:{ Matrix A=getDense(r), B=getDense(r); return pure2(A,B,[&]{ return fresh(A.tmultt(B),A,B); }); }
    case 22:{ Matrix A=getDense(r); return pure1(A,[&]{ return fresh(A.transpose(),A); }); }
    case 23:{ Matrix A=getDense(r); return pure1(A,[&]{ double f=A.frobenius_norm(); return Wire{ST_OK,(ll)std::llround(f*f)}; }); }
    case 24:{ Matrix A=getDense(r), B=getDense(r); return pure2(A,B,[&]{ return outZ(A.dot(B)); }); }
    case 25:{ Matrix A=getDense(r); ll x=r.z(); return pure1(Vector(0),[&]{ A.set((double)x); return outDense(A); }); }
    case 26:{ SymMatrix S=getSym(r); return pure1(S,[&]{ return fresh(Matrix(S),S); }); }
    case 27:{ Vector v=getVec(r); size_t m=r.n(), n=r.n(); return pure1(v,[&]{ return outDense(Matrix(v,m,n)); }); }
    case 30:{ Vector v=getVec(r); U i=getU(r); const Vector& c=v; return pure1(v,[&]{ return outZ(c(i)); }); }
    case 31:{ Vector u=getVec(r), v=getVec(r); return pure2(u,v,[&]{ return fresh(u+v,u,v); }); }
    case 32:{ Vector u=getVec(r), v=getVec(r); return pure2(u,v,[&]{ return fresh(u-v,u,v); }); }
    case 33:{ Vector u=getVec(r); return pure1(u,[&]{ return fresh(-u,u); }); }
    case 34:{ Vector u=getVec(r); ll x=r.z(); return pure1(u,[&]{ return fresh(u*(double)x,u); }); }
    case 35:{ Vector u=getVec(r); ll x=r.z(); return pure1(u,[&]{ return fresh(u+(double)x,u); }); }
    case 36:{ Vector u=getVec(r); ll x=r.z(); return pure1(u,[&]{ return fresh(u-(double)x,u); }); }
    case 37:{ Vector u=getVec(r), v=getVec(r); return pure2(u,v,[&]{ return outZ(u*v); }); }
    case 38:{ Vector u=getVec(r), v=getVec(r); return pure2(u,v,[&]{ return fresh(u.kmult(v),u,v); }); }
    case 39:{ Vector u=getVec(r), v=getVec(r); return pure2(u,v,[&]{ return fresh(u.outer_product(v),u,v); }); }
    case 40:{ Vector u=getVec(r); return pure1(u,[&]{ return outZ(u.sum()); }); }
    case 41:{ Vector u=getVec(r); return pure1(u,[&]{ double f=u.norm(); return Wire{ST_OK,(ll)std::llround(f*f)}; }); }
    case 42:{ Vector u=getVec(r); U a=getU(r), b=getU(r); return pure1(u,[&]{ return fresh(u.subvect(a,b),u); }); }
    case 43:{ Vector v=getVec(r); Matrix M=getDense(r); return pure2(v,M,[&]{ return fresh(v*M,v,M); }); }
    case 44:{ Vector u=getVec(r), v=getVec(r); return pure1(v,[&]{ u+=v; return outVec(u); }); }
    case 45:{ Vector u=getVec(r), v=getVec(r); return pure1(v,[&]{ u-=v; return outVec(u); }); }
    case 46:{ Vector u=getVec(r); ll x=r.z(); return pure1(Vector(0),[&]{ u*=(double)x; return outVec(u); }); }
    case 47:{ Vector u=getVec(r); ll x=r.z(); return pure1(Vector(0),[&]{ u.set((double)x); return outVec(u); }); }
    case 50:{ SymMatrix S=getSym(r); U i=getU(r), j=getU(r); const SymMatrix& C=S; return pure1(S,[&]{ return outZ(C(i,j)); }); }
    case 51:{ SymMatrix S=getSym(r); U i=getU(r), j=getU(r); ll v=r.z(); return pure1(Vector(0),[&]{ S(i,j)=(double)v; return outSym(S); }); }
    case 52:{ SymMatrix S=getSym(r); U i=getU(r); return pure1(S,[&]{ return fresh(S.getlin(i),S); }); }
    case 53:{ SymMatrix S=getSym(r); U i=getU(r); Vector v=getVec(r); return pure1(v,[&]{ S.setlin(i,v); return outSym(S); }); }
    case 54:{ SymMatrix S=getSym(r); U a=getU(r),b=getU(r),c=getU(r),d=getU(r); return pure1(S,[&]{ return fresh(S.submat(a,b,c,d),S); }); }
    case 55:{ SymMatrix S=getSym(r); U a=getU(r),b=getU(r); return pure1(S,[&]{ return fresh(S.submat(a,b),S); }); }
    case 56:{ SymMatrix A=getSym(r), B=getSym(r); return pure2(A,B,[&]{ return fresh(A+B,A,B); }); }
    case 57:{ SymMatrix A=getSym(r), B=getSym(r); return pure2(A,B,[&]{ return fresh(A-B,A,B); }); }
    case 58:{ SymMatrix A=getSym(r), B=getSym(r); return pure2(A,B,[&]{ return fresh(A*B,A,B); }); }
    case 59:{ SymMatrix A=getSym(r); Matrix B=getDense(r); return pure2(A,B,[&]{ return fresh(A*B,A,B); }); }
    case 60:{ SymMatrix A=getSym(r); Vector v=getVec(r); return pure2(A,v,[&]{ return fresh(A*v,A,v); }); }
    case 61:{ SymMatrix A=getSym(r); ll x=r.z(); return pure1(A,[&]{ return fresh(A*(double)x,A); }); }
    case 62:{ SymMatrix A=getSym(r), B=getSym(r); return pure1(B,[&]{ A+=B; return outSym(A); }); }
    case 63:{ SymMatrix A=getSym(r), B=getSym(r); return pure1(B,[&]{ A-=B; return outSym(A); }); }
    case 64:{ SymMatrix A=getSym(r); ll x=r.z(); return pure1(Vector(0),[&]{ A*=(double)x; return outSym(A); }); }
    case 65:{ Matrix M=getDense(r); return pure1(M,[&]{ return fresh(SymMatrix(M),M); }); }
    case 66:{ SymMatrix S=getSym(r); U a=getU(r),b=getU(r),c=getU(r),d=getU(r); return pure1(S,[&]{ return fresh(S(a,b,c,d),S); }); }
    case 70:{ // copy semantics: A; B=A (copy constructor, shares the buffer); C(A,DEEP_COPY); write cell k of who; views of A,B,C
        Vector d=getVec(r); size_t who=r.n(), k=r.n(); ll x=r.z(); size_t kind=d.size()%3; Wire o{ST_OK,(ll)d.size()};
        auto run=[&](auto& A,auto& B,auto& C) { double* t=(who==0)?A.data():(who==1)?C.data():B.data(); if (k<d.size()) t[k]=(double)x;
            for (auto* p:{A.data(),B.data(),C.data()}) for (size_t q=0;q<d.size();++q) o.push_back(exact(p[q])); };
        if (kind==0 || d.size()==0) { Vector A(d,DEEP_COPY); Vector B(A); Vector C(A,DEEP_COPY); run(A,B,C); }
        else if (kind==1) { Matrix A(d,(unsigned)d.size(),1); Matrix B(A); Matrix C(A,DEEP_COPY); run(A,B,C); }
        else { Matrix A0(d,1,(unsigned)d.size()); Matrix A(A0,DEEP_COPY); Matrix B=A; Matrix C(A,DEEP_COPY); run(A,B,C); }
        return o; }
    }
    return Wire{-1};
}


// ---------------------------------------------------------------------------------------------------------
// LAPACK-backed methods: MEASURED against their defining equations (not proved).  Products are computed here
// with naive loops on the returned doubles; the condition number comes from an independent LAPACKE_dgesvd.
#include <matop.h>
typedef std::vector<double> DV;
struct DM { size_t m,n; DV a; DM(size_t m_=0,size_t n_=0): m(m_),n(n_),a(m_*n_,0.0) {} double& operator()(size_t i,size_t j){return a[i+m*j];} double operator()(size_t i,size_t j) const {return a[i+m*j];} };
static DM mul(const DM& A,const DM& B) { DM C(A.m,B.n); for (size_t j=0;j<B.n;++j) for (size_t k=0;k<A.n;++k) for (size_t i=0;i<A.m;++i) C(i,j)+=A(i,k)*B(k,j); return C; }
static DM tr(const DM& A) { DM C(A.n,A.m); for (size_t i=0;i<A.m;++i) for (size_t j=0;j<A.n;++j) C(j,i)=A(i,j); return C; }
static DM sub(const DM& A,const DM& B) { DM C(A.m,A.n); for (size_t k=0;k<C.a.size();++k) C.a[k]=A.a[k]-B.a[k]; return C; }
static DM eye(size_t n) { DM C(n,n); for (size_t i=0;i<n;++i) C(i,i)=1; return C; }
static double nrm(const DM& A) { double s=0; for (double x:A.a) { if (!(x==x)) return INFINITY; s+=x*x; } return std::sqrt(s); }
static DM ofM(const Matrix& M) { DM C(M.nlin(),M.ncol()); for (size_t k=0;k<C.a.size();++k) C.a[k]=M.data()[k]; return C; }
static DM ofS(const SymMatrix& S) { DM C(S.nlin(),S.nlin()); for (unsigned i=0;i<S.nlin();++i) for (unsigned j=0;j<S.nlin();++j) C(i,j)=S(i,j); return C; }
static Matrix toM(const DM& A) { Matrix M(A.m,A.n); for (size_t k=0;k<A.a.size();++k) M.data()[k]=A.a[k]; return M; }
static SymMatrix toS(const DM& A) { SymMatrix S((unsigned)A.m); for (unsigned i=0;i<A.m;++i) for (unsigned j=i;j<A.m;++j) S(i,j)=A(i,j); return S; }
struct Lcg { unsigned long long s; Lcg(unsigned long long s_): s(s_*6364136223846793005ULL+1442695040888963407ULL) {} int next(int lo,int hi){ s=s*6364136223846793005ULL+1442695040888963407ULL; return lo+(int)((s>>33)%(unsigned long long)(hi-lo+1)); } };
static DM randint(Lcg& g,size_t m,size_t n,int a=3) { DM X(m,n); for (double& x:X.a) x=g.next(-a,a); return X; }
// singular values by an independent routine
static DV svals(const DM& A) { DM c=A; size_t k=std::min(A.m,A.n); DV s(k),sup(k+1); if (k==0) return s;
    LAPACKE_dgesvd(LAPACK_COL_MAJOR,'N','N',(int)A.m,(int)A.n,c.a.data(),(int)A.m,s.data(),nullptr,1,nullptr,1,sup.data()); return s; }
static double ratio(double a,double b) { return (b>0) ? a/b : (a==0 ? 0.0 : INFINITY); }
static double condn(const DV& s) { if (s.empty()) return 1.0; return !(s.back()>0) ? INFINITY : s.front()/s.back(); }

static double bitwise_same(const Matrix& M,const std::vector<double>& b) { return (M.size()==b.size() && (b.empty() || memcmp(b.data(),M.data(),b.size()*sizeof(double))==0)) ? 0.0 : INFINITY; }
static DM ranked(Lcg& g,size_t m,size_t n,size_t rk) { if (m==0 || n==0) return DM(m,n); return (rk>=std::min(m,n)) ? randint(g,m,n) : (rk==0 ? DM(m,n) : mul(randint(g,m,rk),randint(g,rk,n))); }
static size_t numrank(const DV& s) { size_t er=0; for (double x:s) if (x>0 && x>1e-9*s.front()) ++er; return er; }
static FWire c13l(Reader& r,FReader&) {
    ll kind=r.z(); size_t m=r.n(), n=r.n(), rk=r.n(); Lcg g((unsigned long long)r.z());
    FWire out; out.z=Wire{ST_OK};
    auto discard=[&]{ return FWire{Wire{5},{}}; };
    switch (kind) {
    case 1: {   // Matrix::inverse : A inv = inv A = I
        DM A=(m==0) ? DM(0,0) : randint(g,m,m); for (size_t i=0;i<m;++i) A(i,i)+=g.next(2,6);
        DV s=svals(A); double cond=condn(s); if (!(cond<1e8)) return discard();
        const Matrix MA=toM(A); std::vector<double> before(MA.data(),MA.data()+MA.size());
        DM I=ofM(MA.inverse());
        double pure = memcmp(before.data(),MA.data(),before.size()*sizeof(double))==0 ? 0.0 : INFINITY;
        out.f={cond,nrm(sub(mul(A,I),eye(m)))/std::sqrt((double)std::max<size_t>(m,1)),nrm(sub(mul(I,A),eye(m)))/std::sqrt((double)std::max<size_t>(m,1)),pure}; return out; }
    case 2: case 8: {   // Matrix::pinverse : the four Moore-Penrose conditions ; 8: with a relative tolerance that cuts the rank
        DM A = ranked(g,m,n,rk);
        DV s=svals(A); size_t er=numrank(s);
        double cond = er ? s.front()/s[er-1] : 1.0; if (!(cond<1e8)) return discard();
        if (er<s.size() && er>0 && s[er]>1e-13*s.front()) return discard();     // no clear numerical rank
        double reltol=0.0; size_t keep=er;
        if (kind==8) {      // choose tol strictly between two singular values: max(m,n)*reltol*s0 = sqrt(s[k-1]*s[k])
            if (er<2) return discard();
            size_t k=1+(size_t)g.next(0,(int)er-2);
            if (s[k-1]/s[k]<1.5) return discard();
            reltol=std::sqrt(s[k-1]*s[k])/(std::max(m,n)*s.front()); keep=k;
        }
        const Matrix MA=toM(A); std::vector<double> before(MA.data(),MA.data()+MA.size());
        DM P=ofM(MA.pinverse(reltol)); const double pure=bitwise_same(MA,before);
        if (P.m!=n || P.n!=m) { out.z=Wire{6}; return out; }
        // reference: truncated SVD pseudo-inverse of rank `keep`
        DM c=A; size_t q=std::min(m,n); DM U(m,q),Vt(q,n); DV sv(q),sup(q+1);
        if (q>0) LAPACKE_dgesvd(LAPACK_COL_MAJOR,'S','S',(int)m,(int)n,c.a.data(),(int)m,sv.data(),U.a.data(),(int)m,Vt.a.data(),(int)q,sup.data());
        DM Pk(n,m); for (size_t t=0;t<keep;++t) for (size_t i=0;i<n;++i) for (size_t j=0;j<m;++j) Pk(i,j)+=Vt(t,i)*U(j,t)/sv[t];
        DM Ak(m,n); for (size_t t=0;t<keep;++t) for (size_t i=0;i<m;++i) for (size_t j=0;j<n;++j) Ak(i,j)+=U(i,t)*sv[t]*Vt(t,j);
        double cnd = keep ? sv[0]/sv[keep-1] : 1.0;
        double nA=std::max(nrm(Ak),1e-300), nP=std::max(nrm(P),1e-300);
        DM AP=mul(Ak,P), PA=mul(P,Ak);
        out.f={cnd, ratio(nrm(sub(mul(AP,Ak),Ak)),nA), ratio(nrm(sub(mul(PA,P),P)),nP), ratio(nrm(sub(tr(AP),AP)),nA*nP), ratio(nrm(sub(tr(PA),PA)),nA*nP),
               ratio(nrm(sub(P,Pk)),std::max(nrm(Pk),1e-300)), pure};
        return out; }
    case 3: {   // Matrix::svd : reconstruction, orthogonality, ordering (complete and economic)
        DM A = ranked(g,m,n,rk);
        bool complete = g.next(0,1)==1; size_t q=std::min(m,n);
        const Matrix MA=toM(A); std::vector<double> before(MA.data(),MA.data()+MA.size());
        Matrix U,V; SparseMatrix S; MA.svd(U,S,V,complete); const double pure=bitwise_same(MA,before);
        if (U.nlin()!=m || U.ncol()!=m || V.nlin()!=n || V.ncol()!=n || S.nlin()!=m || S.ncol()!=n) { out.z=Wire{6}; return out; }
        DM Uq(m,q),Vq(q,n),Sq(q,q); double ord=0; DV s(q);
        for (size_t t=0;t<q;++t) { s[t]=S(t,t); Sq(t,t)=s[t]; if (!(s[t]>=0) || (t && !(s[t-1]>=s[t]))) ord=INFINITY; for (size_t i=0;i<m;++i) Uq(i,t)=U(i,t); for (size_t j=0;j<n;++j) Vq(t,j)=V(t,j); }
        DV ref=svals(A); double ds=0; for (size_t t=0;t<q;++t) ds=std::max(ds,std::fabs(ref[t]-s[t]));
        double nA=std::max(nrm(A),1e-300);
        out.f={1.0, ratio(nrm(sub(mul(mul(Uq,Sq),Vq),A)),nA), nrm(sub(mul(tr(Uq),Uq),eye(q))), nrm(sub(mul(Vq,tr(Vq)),eye(q))), ord, ratio(ds,nA), pure};
        if (complete) { DM Uf=ofM(U),Vf=ofM(V); out.f.push_back(nrm(sub(mul(tr(Uf),Uf),eye(m)))); out.f.push_back(nrm(sub(mul(Vf,tr(Vf)),eye(n)))); }
        return out; }
    case 4: case 5: case 6: case 7: {   // symmetric: solveLin (vector and matrix), inverse/invert, det, posdefinverse
        DM X=randint(g,m,m); DM A(m,m);
        if (kind==7) { A=mul(tr(X),X); for (size_t i=0;i<m;++i) A(i,i)+=1; }
        else { for (size_t i=0;i<m;++i) for (size_t j=0;j<m;++j) A(i,j)=X(i,j)+X(j,i); }
        DV s=svals(A); double cond=condn(s); if (!(cond<1e8)) return discard();
        SymMatrix SA=toS(A); std::vector<double> before(SA.data(),SA.data()+SA.size());
        double nA=nrm(A);
        if (kind==4) {
            DM B=randint(g,m,std::max<size_t>(n,1)); Vector b((unsigned)m); for (unsigned i=0;i<m;++i) b(i)=B(i,0);
            Vector x=SA.solveLin(b); DM xv(m,1); for (unsigned i=0;i<m;++i) xv(i,0)=x(i);
            DM b0(m,1); for (unsigned i=0;i<m;++i) b0(i,0)=B(i,0);
            double bpure=0; for (unsigned i=0;i<m;++i) if (b(i)!=B(i,0)) bpure=INFINITY;
            const double pure_v = memcmp(before.data(),SA.data(),before.size()*sizeof(double))==0 ? 0.0 : INFINITY;
            Matrix RHS=toM(B); Matrix Xm=SA.solveLin(RHS);
            out.f={cond, ratio(nrm(sub(mul(A,xv),b0)),nA*std::max(nrm(xv),1e-300)), ratio(nrm(sub(mul(A,ofM(Xm)),B)),nA*std::max(nrm(ofM(Xm)),1e-300)), bpure, pure_v};
        } else if (kind==5) {
            DM I=ofS(SA.inverse()); SymMatrix C(SA,DEEP_COPY); C.invert(); DM I2=ofS(C);
            out.f={cond, nrm(sub(mul(A,I),eye(m)))/std::sqrt((double)std::max<size_t>(m,1)), nrm(sub(mul(A,I2),eye(m)))/std::sqrt((double)std::max<size_t>(m,1))};
        } else if (kind==6) {
            DM c=A; std::vector<int> piv(m+1); if (m>0) LAPACKE_dgetrf(LAPACK_COL_MAJOR,(int)m,(int)m,c.a.data(),(int)m,piv.data());
            double dref=1; for (size_t i=0;i<m;++i) { dref*=c(i,i); if (piv[i]!=(int)i+1) dref=-dref; }
            double d=SA.det();
            out.f={cond, ratio(std::fabs(d-dref),std::max(std::fabs(dref),1e-300))};
        } else {
            DM I=ofS(SA.posdefinverse());
            out.f={cond, nrm(sub(mul(A,I),eye(m)))/std::sqrt((double)std::max<size_t>(m,1))};
        }
        out.f.push_back(memcmp(before.data(),SA.data(),before.size()*sizeof(double))==0 ? 0.0 : INFINITY);
        return out; }
    case 9: case 10: {   // nullspace_projector, any shape and rank: P^2=P, M P = 0, P symmetric ; 10: also trace(P) = n - rank(M)
        DM A=ranked(g,m,n,rk); DV s=svals(A); size_t er=numrank(s);
        double cond = er ? s.front()/s[er-1] : 1.0; if (!(cond<1e8)) return discard();
        if (er<s.size() && er>0 && s[er]>1e-13*s.front()) return discard();
        const Matrix MA=toM(A); std::vector<double> before(MA.data(),MA.data()+MA.size());
        DM P=ofM(nullspace_projector(MA)); const double pure=bitwise_same(MA,before);
        if (P.m!=n || P.n!=n) { out.z=Wire{6}; return out; }
        double trc=0; for (size_t i=0;i<n;++i) trc+=P(i,i);
        const bool full = (er==std::min(m,n));
        if (kind==9 && !full) return discard();          // rank-deficient inputs: completeness is checked by kind 10
        out.f={cond, nrm(sub(mul(P,P),P)), ratio(nrm(mul(A,P)),std::max(nrm(A),1e-300)), nrm(sub(tr(P),P)), std::fabs(trc-(double)(n-er)), pure};
        return out; }
    }
    out.z=Wire{-1}; return out;
}

int main(int argc,char** argv) {
    if (argc<2) return 2;
    struct rlimit rl; rl.rlim_cur=rl.rlim_max=(rlim_t)3<<30; setrlimit(RLIMIT_AS,&rl);
    if (getenv("C13_FLOAT"))
        return run_cases_f(argv[1],[&](const std::string& comp,Reader& r,FReader& f)->FWire { if (comp=="c13l") return c13l(r,f); return FWire{Wire{-2},{}}; });
    return run_cases(argv[1],[&](const std::string& comp,Reader& r)->Wire { if (comp=="c13") return c13(r); return Wire{-2}; });
}
