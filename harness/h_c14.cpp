// C14 harness: sparse / fast-sparse / ranges / block containers of the current /repo tree.
#include <vector.h>
#include <matrix.h>
#include <symmatrix.h>
#include <sparse_matrix.h>
#include <fast_sparse_matrix.h>
#define private public
#include <block_matrix.h>
#include <symm_block_matrix.h>
#undef private
#include "wire.h"

using namespace OpenMEEG;
using maths::Range; using maths::Ranges;

static SparseMatrix getSparse(Reader& r) {
    size_t nl=r.n(), nc=r.n(), nnz=r.n();
    SparseMatrix A(nl,nc);
    for (size_t k=0;k<nnz;++k) { size_t i=r.n(), j=r.n(); ll v=r.z(); if (i>=nl||j>=nc) throw Reader::Malformed(); A(i,j)=(double)v; }
    return A;
}
static Vector getVec(Reader& r) { size_t n=r.n(); Vector v(n); for (size_t k=0;k<n;++k) v(k)=(double)r.z(); return v; }
static Matrix getDense(Reader& r) { size_t nl=r.n(), nc=r.n(); Matrix M(nl,nc); for (size_t j=0;j<nc;++j) for (size_t i=0;i<nl;++i) M(i,j)=(double)r.z(); return M; }
static SymMatrix getSym(Reader& r) { size_t n=r.n(); SymMatrix S(n); for (size_t j=0;j<n;++j) for (size_t i=0;i<=j;++i) S(i,j)=(double)r.z(); return S; }
static Range getRange(Reader& r) { size_t a=r.n(), b=r.n(); return Range(a,b); }
static Ranges getRanges(Reader& r) { size_t n=r.n(); Ranges rs; for (size_t k=0;k<n;++k) rs.push_back(getRange(r)); return rs; }

static Wire outVec(const Vector& v) { Wire o{ST_OK,(ll)v.size()}; for (size_t k=0;k<v.size();++k) o.push_back(exact(v(k))); return o; }
static Wire outDense(const Matrix& M) { Wire o{ST_OK,(ll)M.nlin(),(ll)M.ncol()}; for (size_t j=0;j<M.ncol();++j) for (size_t i=0;i<M.nlin();++i) o.push_back(exact(M(i,j))); return o; }
static Wire outSparse(const SparseMatrix& A) { Wire o{ST_OK,(ll)A.nlin(),(ll)A.ncol()}; for (size_t j=0;j<A.ncol();++j) for (size_t i=0;i<A.nlin();++i) o.push_back(exact(A(i,j))); return o; }

template <typename F> static Wire guarded(F f) {
    try { return f(); }
    catch (std::invalid_argument&) { return Wire{ST_ASSERT}; }
}

static void rres(Wire& o, const std::function<unsigned()>& f) {
    try { unsigned i=f(); o.push_back(0); o.push_back(i); }
    catch (maths::OverlappingRanges&) { o.push_back(2); o.push_back(0); }
    catch (maths::NonExistingRange&)  { o.push_back(3); o.push_back(0); }
    catch (maths::NonExistingBlock&)  { o.push_back(4); o.push_back(0); }
}

static Wire c14(Reader& r) {
    ll op=r.z();
    switch (op) {
    case 1: { SparseMatrix A=getSparse(r); size_t i=r.n(), j=r.n(); const SparseMatrix& C=A; return guarded([&]{ return Wire{ST_OK,exact(C(i,j))}; }); }
    case 2: { SparseMatrix A=getSparse(r); Vector x=getVec(r); return guarded([&]{ return outVec(A*x); }); }
    case 3: { SparseMatrix A=getSparse(r); Matrix B=getDense(r); return guarded([&]{ return outDense(A*B); }); }
    case 4: { SparseMatrix A=getSparse(r); SymMatrix B=getSym(r); return guarded([&]{ return outDense(A*B); }); }
    case 5: { SparseMatrix A=getSparse(r); SparseMatrix B=getSparse(r); return guarded([&]{ return outSparse(A*B); }); }
    case 6: { SparseMatrix A=getSparse(r); SparseMatrix B=getSparse(r); return guarded([&]{ return outSparse(A+B); }); }
    case 7: { SparseMatrix A=getSparse(r); return guarded([&]{ return outSparse(A.transpose()); }); }
    case 8: { SparseMatrix A=getSparse(r); size_t i=r.n(); return guarded([&]{ return outVec(A.getlin(i)); }); }
    case 9: { SparseMatrix A=getSparse(r); Vector v=getVec(r); size_t i=r.n(); return guarded([&]{ A.setlin(v,i); return outSparse(A); }); }
    case 10:{ SparseMatrix A=getSparse(r); double f=A.frobenius_norm(); if (!std::isfinite(f)) return Wire{ST_OK,(ll)-1}; /* a norm is finite for finite entries; the model's sum of squares is never negative */ return Wire{ST_OK,(ll)std::llround(f*f)}; }
    case 11:{ SparseMatrix A=getSparse(r); return guarded([&]{ return outDense(Matrix(A)); }); }
    case 12:{ Matrix M=getDense(r); SparseMatrix A=getSparse(r); return guarded([&]{ return outDense(M*A); }); }
    case 13:{ SparseMatrix A=getSparse(r); size_t i=r.n(), j=r.n(); if (i>=A.nlin()) throw Reader::Malformed(); const FastSparseMatrix F(A); return Wire{ST_OK,exact(F(i,j))}; }
    case 14:{ SparseMatrix A=getSparse(r); Vector x=getVec(r); if (x.size()!=A.ncol()) throw Reader::Malformed(); FastSparseMatrix F(A); return outVec(F*x); }
    case 20:{ size_t n=r.n(); Ranges rs; Wire o;
              for (size_t k=0;k<n;++k) { size_t kind=r.n(), a=r.n(), b=r.n();
                  if (kind==0) rres(o,[&]{ return rs.add(Range(a,b)); });
                  else if (kind==1) rres(o,[&]{ return rs.find_index(a); });
                  else rres(o,[&]{ return rs.find_index(Range(a,b)); }); }
              return o; }
    case 21:{ Ranges rows=getRanges(r), cols=getRanges(r); size_t n=r.n();
              std::vector<std::pair<size_t,size_t>> qs; for (size_t k=0;k<n;++k) { size_t i=r.n(), j=r.n(); qs.push_back({i,j}); }
              size_t N=0,M=0; for (auto& x:rows) N=std::max(N,x.end()+1); for (auto& x:cols) M=std::max(M,x.end()+1);
              maths::BlockMatrix bm(N,M);
              try { bm.set_blocks(rows,cols); } catch (maths::OverlappingRanges&) { return Wire{2}; }
              Wire o{ST_OK};
              for (auto& q: qs) {
                  try {
                      double* p=&bm(q.first,q.second); bool found=false;
                      for (auto& b: bm.all_blocks) { Matrix& B=const_cast<Matrix&>(b.second);
                          if (B.size()>0 && p>=B.data() && p<B.data()+B.size()) { size_t off=p-B.data();
                              o.insert(o.end(),{0,(ll)b.first.first,(ll)b.first.second,(ll)(off%B.nlin()),(ll)(off/B.nlin())}); found=true; break; } }
                      if (!found) o.insert(o.end(),{5,0,0,0,0});
                  } catch (maths::NonExistingBlock&) { o.insert(o.end(),{4,0,0,0,0}); }
                    catch (std::invalid_argument&) { o.insert(o.end(),{1,0,0,0,0}); }
              }
              return o; }
    case 22:{ Ranges rs=getRanges(r); size_t n=r.n();
              std::vector<std::pair<size_t,size_t>> qs; for (size_t k=0;k<n;++k) { size_t i=r.n(), j=r.n(); qs.push_back({i,j}); }
              size_t N=0; for (auto& x:rs) N=std::max(N,x.end()+1);
              maths::SymmetricBlockMatrix bm(N);
              try { bm.set_blocks(rs); } catch (maths::OverlappingRanges&) { return Wire{2}; }
              Wire o{ST_OK};
              for (auto& q: qs) {
                  try {
                      double* p=&bm(q.first,q.second); bool found=false;
                      for (auto& b: bm.blocks) { Matrix& B=const_cast<Matrix&>(b.second);
                          if (B.size()>0 && p>=B.data() && p<B.data()+B.size()) { size_t off=p-B.data();
                              o.insert(o.end(),{0,(ll)b.first.first,(ll)b.first.second,(ll)(off%B.nlin()),(ll)(off/B.nlin())}); found=true; break; } }
                      if (!found) o.insert(o.end(),{5,0,0,0,0});
                  } catch (maths::NonExistingBlock&) { o.insert(o.end(),{4,0,0,0,0}); }
                    catch (std::invalid_argument&) { o.insert(o.end(),{1,0,0,0,0}); }
              }
              return o; }
    case 23:{ size_t n=r.n(); maths::SymmetricBlockMatrix bm(1000); Wire o;
              for (size_t k=0;k<n;++k) { Range ir=getRange(r), jr=getRange(r);
                  try {
                      std::map<std::pair<unsigned,unsigned>,const double*> before; for (auto& b: bm.blocks) before[b.first]=b.second.data();
                      bm.add_block(ir,jr);
                      // the block written by this call: new key, or same key with a fresh buffer
                      bool found=false;
                      for (auto& b: bm.blocks) { auto it=before.find(b.first);
                          if (it==before.end() || it->second!=b.second.data()) { o.insert(o.end(),{0,(ll)b.first.first,(ll)b.first.second,(ll)b.second.nlin(),(ll)b.second.ncol()}); found=true; break; } }
                      if (!found) o.insert(o.end(),{5,0,0,0,0});
                  } catch (maths::OverlappingRanges&) { o.insert(o.end(),{2,0,0,0,0}); }
                    catch (maths::NonExistingRange&)  { o.insert(o.end(),{3,0,0,0,0}); }
              }
              return o; }
    }
    return Wire{-1};
}

int main(int argc,char** argv) {
    if (argc<2) return 2;
    return run_cases(argv[1],[&](const std::string& comp,Reader& r)->Wire { if (comp=="c14") return c14(r); return Wire{-2}; });
}
