// C15 harness: mesh writers/readers, Mesh::merge, om_mesh_convert / om_mesh_concat of the current tree.
// Case layout and result layout: see coq/Geom/RunC15.v (same wire on both sides).
#include "wire.h"
#include <map>
#include <set>
#include <stack>
#include <memory>
#include <algorithm>
#include <iterator>
#include <iomanip>
#include <limits>
#include <unistd.h>
#include <cstdint>
#include <filesystem>
#define private public
#define protected public
#include <mesh.h>
#include <geometry.h>
#include <MeshIO.h>
#undef private
#undef protected

using namespace OpenMEEG;

static const char* EXT[] = { "tri", "off", "bnd", "mesh", "vtk" };

static double getC(Reader& r) {
    uint64_t hi = (uint64_t)r.n(), lo = (uint64_t)r.n();
    uint64_t b = (hi<<32)|lo; double d; memcpy(&d,&b,8); return d;
}
static void outC(Wire& o, double d) {
    uint64_t b; memcpy(&b,&d,8); o.push_back((ll)(b>>32)); o.push_back((ll)(b&0xffffffffULL));
}

struct MeshIn { Vertices vs; std::vector<TriangleIndices> ts; };

static MeshIn getMeshIn(Reader& r) {
    MeshIn mi;
    size_t n = r.n();
    for (size_t i=0;i<n;++i) { double x=getC(r), y=getC(r), z=getC(r); mi.vs.push_back(Vertex(x,y,z)); }
    size_t k = r.n();
    for (size_t i=0;i<k;++i) { unsigned a=r.n(), b=r.n(), c=r.n(); mi.ts.push_back(TriangleIndices(a,b,c)); }
    return mi;
}
static void skipTable(Reader& r) { size_t n = r.n(); for (size_t i=0;i<4*n;++i) r.n(); }

// the way every reader fills a mesh: add_vertices, reference_vertices, add_triangle through the index map
static Mesh* mkmesh(size_t flags, const MeshIn& mi) {
    Mesh* m = new Mesh();
    const IndexMap indmap = m->geometry().add_vertices(mi.vs);
    m->reference_vertices(indmap);
    for (const auto& t : mi.ts) m->add_triangle(t,indmap);
    if (flags&1) m->update(true);
    else if (flags&2) { }   // programmatic mesh saved before any update: Vertex::index() still unset
    else { m->make_adjacencies(); m->generate_indices(); m->update(false); }
    return m;
}

static void dump(Wire& o, const Mesh& m) {
    const Vertex* base = m.geometry().vertices().empty() ? nullptr : &m.geometry().vertices()[0];
    o.push_back((ll)m.vertices().size());
    for (const auto& vp : m.vertices()) {
        o.push_back((ll)(vp-base));
        outC(o,vp->x()); outC(o,vp->y()); outC(o,vp->z());
    }
    o.push_back((ll)m.geometry().vertices().size());
    o.push_back((ll)m.triangles().size());
    for (const auto& t : m.triangles())
        for (unsigned i=0;i<3;++i) o.push_back((ll)(&t.vertex(i)-base));
}

static std::string fname(const char* stem, size_t id, size_t fmt) {
    return std::string(stem) + "_" + std::to_string(id) + "." + EXT[fmt];
}
static std::string tooldir() { const char* t = getenv("OM_TOOLS"); return t ? t : "."; }
static int tool(const std::string& cmd) { return system((tooldir()+"/"+cmd+" >/dev/null 2>&1").c_str()); }

static size_t counter = 0;

static Wire c15(Reader& r) {
    ll op = r.z();
    Wire o;
    switch (op) {
    case 1: {
        size_t fmt=r.n(), flags=r.n(); MeshIn mi=getMeshIn(r); skipTable(r);
        if (fmt>4) throw Reader::Malformed();
        Mesh* m;
        try { m = mkmesh(flags,mi); } catch (std::exception&) { return Wire{30}; }
        o.push_back(0); dump(o,*m);
        const std::string f = fname("rt",(size_t)getpid()*1000+(counter++%1000),fmt);
        try { m->save(f); } catch (std::exception&) { unlink(f.c_str()); o.push_back(31); return o; }
        Mesh m2;
        try { m2.load(f,false); } catch (std::exception&) { unlink(f.c_str()); o.push_back(32); return o; }
        unlink(f.c_str());
        o.push_back(0); dump(o,m2);
        return o;
    }
    case 2: {
        size_t fmt=r.n(), flags=r.n(), id=r.n(); MeshIn mi=getMeshIn(r); skipTable(r);
        if (fmt>4) throw Reader::Malformed();
        Mesh* m;
        try { m = mkmesh(flags,mi); } catch (std::exception&) { return Wire{30}; }
        const std::string f = fname("w",id,fmt);
        try { m->save(f); } catch (std::exception&) { unlink(f.c_str()); return Wire{31}; }
        return Wire{0};
    }
    case 3: {
        size_t flags=r.n(); MeshIn a=getMeshIn(r), b=getMeshIn(r);
        Mesh *m1, *m2;
        try { m1 = mkmesh(flags,a); m2 = mkmesh(flags,b); } catch (std::exception&) { return Wire{30}; }
        Mesh m3;
        try { m3.merge(*m1,*m2); } catch (std::exception&) { return Wire{34}; }
        o.push_back(0); dump(o,m3);
        return o;
    }
    case 4: {
        size_t fa=r.n(), fb=r.n(), flags=r.n(), id=r.n(); MeshIn mi=getMeshIn(r); skipTable(r); skipTable(r);
        if (fa>3 || fb>3) throw Reader::Malformed();
        Mesh* m;
        try { m = mkmesh(flags,mi); } catch (std::exception&) { return Wire{32}; }
        const std::string f1 = fname("cva",id,fa), f2 = fname("cvb",id,fb);
        try { m->save(f1); } catch (std::exception&) { unlink(f1.c_str()); return Wire{32}; }
        const int rc = tool("om_mesh_convert -i "+f1+" -o "+f2);
        unlink(f1.c_str());
        if (rc!=0) { unlink(f2.c_str()); return Wire{32}; }
        Mesh m2;
        try { m2.load(f2,false); } catch (std::exception&) { unlink(f2.c_str()); return Wire{32}; }
        unlink(f2.c_str());
        o.push_back(0); dump(o,m2);
        return o;
    }
    case 5: {
        size_t fmt=r.n(), flags=r.n(), id=r.n(); MeshIn a=getMeshIn(r), b=getMeshIn(r); skipTable(r);
        if (fmt>3) throw Reader::Malformed();
        Mesh *m1, *m2;
        try { m1 = mkmesh(flags,a); m2 = mkmesh(flags,b); } catch (std::exception&) { return Wire{32}; }
        const std::string f1 = fname("cca",id,fmt), f2 = fname("ccb",id,fmt), f3 = fname("ccc",id,fmt);
        try { m1->save(f1); m2->save(f2); } catch (std::exception&) { unlink(f1.c_str()); unlink(f2.c_str()); return Wire{32}; }
        const int rc = tool("om_mesh_concat -i1 "+f1+" -i2 "+f2+" -o "+f3);
        unlink(f1.c_str()); unlink(f2.c_str());
        if (rc!=0) { unlink(f3.c_str()); return Wire{32}; }
        Mesh m3;
        try { m3.load(f3,false); } catch (std::exception&) { unlink(f3.c_str()); return Wire{32}; }
        unlink(f3.c_str());
        o.push_back(0); dump(o,m3);
        return o;
    }
    case 6: {
        size_t fa=r.n(), fb=r.n(), fc=r.n(), flags=r.n(), id=r.n(); MeshIn mi=getMeshIn(r); skipTable(r); skipTable(r); skipTable(r);
        if (fa>3 || fb>3 || fc>3) throw Reader::Malformed();
        Mesh* m;
        try { m = mkmesh(flags,mi); } catch (std::exception&) { return Wire{30}; }
        o.push_back(0); dump(o,*m);
        const std::string f1 = fname("cha",id,fa), f2 = fname("chb",id,fb), f3 = fname("chc",id,fc);
        try { m->save(f1); } catch (std::exception&) { unlink(f1.c_str()); o.push_back(32); return o; }
        int rc = tool("om_mesh_convert -i "+f1+" -o "+f2);
        unlink(f1.c_str());
        if (rc==0) rc = tool("om_mesh_convert -i "+f2+" -o "+f3);
        unlink(f2.c_str());
        if (rc!=0) { unlink(f3.c_str()); o.push_back(32); return o; }
        Mesh m3;
        try { m3.load(f3,false); } catch (std::exception&) { unlink(f3.c_str()); o.push_back(32); return o; }
        unlink(f3.c_str());
        o.push_back(0); dump(o,m3);
        return o;
    }
    case 7: {
        size_t fmt=r.n(), flags=r.n(), id=r.n(); MeshIn a=getMeshIn(r), b=getMeshIn(r); skipTable(r);
        if (fmt>3) throw Reader::Malformed();
        Mesh *m1, *m2;
        try { m1 = mkmesh(flags,a); m2 = mkmesh(flags,b); } catch (std::exception&) { return Wire{32}; }
        const std::string f1 = fname("rla",id,fmt), f2 = fname("rlb",id,fmt);
        try { m1->save(f1); m2->save(f2); } catch (std::exception&) { unlink(f1.c_str()); unlink(f2.c_str()); return Wire{32}; }
        Mesh fresh, used;
        try { fresh.load(f2,false); used.load(f1,false); used.load(f2,false); }
        catch (std::exception&) { unlink(f1.c_str()); unlink(f2.c_str()); return Wire{32}; }
        unlink(f1.c_str()); unlink(f2.c_str());
        o.push_back(0); dump(o,fresh); o.push_back(0); dump(o,used);
        return o;
    }
    case 8: {
        size_t flags=r.n(), n=r.n(); std::string name; for (size_t k=0;k<n;++k) name += (char)r.n();
        MeshIn mi=getMeshIn(r); skipTable(r);
        Mesh* m;
        try { m = mkmesh(flags,mi); } catch (std::exception&) { return Wire{30}; }
        o.push_back(0); dump(o,*m);
        const std::string f = "fn_" + std::to_string((size_t)getpid()) + "/" + name;
        std::error_code ec; std::filesystem::create_directories(std::filesystem::path(f).parent_path(),ec);
        try { m->save(f); } catch (std::exception&) { std::filesystem::remove_all("fn_"+std::to_string((size_t)getpid()),ec); o.push_back(31); return o; }
        Mesh m2;
        try { m2.load(f,false); } catch (std::exception&) { std::filesystem::remove_all("fn_"+std::to_string((size_t)getpid()),ec); o.push_back(32); return o; }
        std::filesystem::remove_all("fn_"+std::to_string((size_t)getpid()),ec);
        o.push_back(0); dump(o,m2);
        return o;
    }
    case 9: {
        // every mesh of a geometry loaded from g_<id>/model.geom [+ model.cond]: dump, save in fmt, reload into a fresh Mesh, dump
        size_t fmt=r.n(), id=r.n(), cond=r.n(), oldord=r.n();
        if (fmt>3) throw Reader::Malformed();
        const std::string dir = "g_" + std::to_string(id) + "/";
        Geometry* g;
        try { g = cond ? new Geometry(dir+"model.geom",dir+"model.cond",oldord!=0) : new Geometry(dir+"model.geom",oldord!=0); }
        catch (std::exception&) { return Wire{30}; }
        o.push_back(0); o.push_back((ll)g->meshes().size());
        size_t k = 0;
        for (const auto& m : g->meshes()) {
            dump(o,m);
            const std::string f = dir + "out_" + std::to_string(k++) + "." + EXT[fmt];
            try { m.save(f); } catch (std::exception&) { unlink(f.c_str()); o.push_back(31); continue; }
            Mesh m2;
            try { m2.load(f,false); } catch (std::exception&) { unlink(f.c_str()); o.push_back(32); continue; }
            unlink(f.c_str());
            o.push_back(0); dump(o,m2);
        }
        return o;
    }
    default: throw Reader::Malformed();
    }
}

int main(int argc, char** argv) {
    if (argc<2) { fprintf(stderr,"usage: h_c15 <casefile>\n"); return 2; }
    return run_cases(argv[1],[](const std::string& comp, Reader& r) -> Wire {
        if (comp=="c15") return c15(r);
        throw Reader::Malformed();
    });
}
