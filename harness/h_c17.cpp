// C17 harness: operation sequences executed in ONE process against the library built from the working tree.
// Machine 1: maths IO state (MathsIO.H/.C, X::load / X::save, format manipulators, maths::info).
// The harness runs in a per-case directory (cwd); contents come from ../pool/c<id> (written by `c17 10`).
#include "wire.h"
#include <unistd.h>
#include <sys/stat.h>
#include <map>
#include <set>
#include <list>
#include <memory>
#include <algorithm>
#include <filesystem>
#include <iterator>
#include <stack>
#include <tuple>
#include <iomanip>
#include <limits>
#include <numeric>
#include <random>
#include <regex>
#include <complex>
#include <cassert>
#include <cfloat>
#include <ctime>
#include <omp.h>
#define private public
#define protected public
#include <matrix.h>
#include <symmatrix.h>
#include <vector.h>
#include <sparse_matrix.h>
#include <MathsIO.H>
#include <geometry.h>
#include <mesh.h>
#include <sensors.h>
#include <assemble.h>
#include <integrator.h>
#undef private
#undef protected

using namespace OpenMEEG;

static const char* SFX[] = { ".mat", ".txt", ".tex", ".bin", ".xyz", "" };
static const char* FMTNAME[] = { "matlab", "ascii", "tex", "binary", "default", "nosuchformat" };

static int fmt_index(const std::string& id) {
    for (int i=0;i<4;++i) if (id==FMTNAME[i]) return i;
    return -1;
}

static std::string fname(size_t n,size_t sfx,size_t entry) {
    std::string s = (entry==0) ? "nodir/f" : "f";
    return s+std::to_string(n)+SFX[sfx];
}

static void copy_file(const std::string& from,const std::string& to) {
    std::ifstream i(from.c_str(),std::ios::binary); std::ofstream o(to.c_str(),std::ios::binary);
    if (!i) throw std::runtime_error("pool content missing: "+from);
    o << i.rdbuf();
}

// the fixed objects written by Save / WriteAs
static Vector fixedV() { Vector v(40); for (unsigned i=0;i<40;++i) v(i) = i+1; return v; }
static Matrix fixedM() { Matrix m(6,5); for (unsigned i=0;i<6;++i) for (unsigned j=0;j<5;++j) m(i,j) = 1+i+10*j; return m; }
static SymMatrix fixedS() { SymMatrix s(6); for (unsigned i=0;i<6;++i) for (unsigned j=i;j<6;++j) s(i,j) = 2+i+7*j; return s; }
static SparseMatrix fixedP() { SparseMatrix p(6,6); p(0,1)=2; p(1,1)=3; p(2,5)=4; p(4,0)=5; p(5,5)=6; return p; }

static ll maths_code(const maths::Exception& e) { return (ll)e.code(); }

static void reset_names() { for (auto io : maths::MathsIO::ios()) io->setName(""); }
static ll touched(const std::string& f) {
    ll m = 0;
    for (auto io : maths::MathsIO::ios()) if (io->name()==f) { const int k = fmt_index(io->identity()); if (k>=0) m |= (1LL<<k); }
    return m;
}

template <typename F> static ll guarded(const F& f) {
    try { return f(); }
    catch (maths::Exception& e) { return maths_code(e); }
    catch (std::invalid_argument&) { return 1; }
    catch (...) { return 3; }
}

static ll dims(const LinOpInfo& l) { return 1000+(ll)(l.nlin()%1000)*1000+(ll)(l.ncol()%1000); }

// opcode: 0 Load 1 Save 2 ReadAs 3 WriteAs 4 WriteSfx 5 Info
static ll io_op(size_t o,size_t a,size_t k,const std::string& f) {
    const char* name = f.c_str();
    auto rd = [&](auto& obj) -> ll {
        switch (o) {
            case 0: obj.load(name); break;
            case 2: { maths::ifstream ifs(name); ifs >> maths::format(FMTNAME[a>5?5:a]) >> obj; } break;
            default: throw Reader::Malformed();
        }
        return dims(obj);
    };
    auto wr = [&](const auto& obj) -> ll {
        switch (o) {
            case 1: obj.save(name); break;
            case 3: { maths::ofstream ofs(name); ofs << maths::format(FMTNAME[a>5?5:a]) << obj; } break;
            case 4: { maths::ofstream ofs(name); ofs << maths::format(name,maths::format::FromSuffix) << obj; } break;
            default: throw Reader::Malformed();
        }
        return 0;
    };
    if (o==5) return guarded([&]() -> ll { maths::info(name); return 0; });
    const bool reading = (o==0 || o==2);
    return guarded([&]() -> ll {
        switch (k) {
            case 0: if (reading) { Vector x; return rd(x); } else return wr(fixedV());
            case 1: if (reading) { Matrix x; return rd(x); } else return wr(fixedM());
            case 2: if (reading) { SymMatrix x; return rd(x); } else return wr(fixedS());
            default: if (reading) { SparseMatrix x; return rd(x); } else return wr(fixedP());
        }
    });
}

static Wire run_io(Reader& r) {
    const size_t init = r.n();
    const size_t nn = r.n();
    std::vector<size_t> sfx(nn), ent(nn);
    for (size_t i=0;i<nn;++i) { sfx[i] = r.n(); ent[i] = r.n(); if (sfx[i]>5) throw Reader::Malformed(); }
    if (init) {
        for (size_t i=0;i<nn;++i) {
            const std::string f = fname(i,sfx[i],ent[i]);
            if (ent[i]==0) continue;
            unlink(f.c_str());
            if (ent[i]>=2) copy_file("../pool/c"+std::to_string(ent[i]-2),f);
        }
    }
    const size_t nops = r.n();
    Wire out;
    for (size_t q=0;q<nops;++q) {
        const size_t o = r.n(), a = r.n(), k = r.n(), n = r.n();
        if (n>=nn || k>3) throw Reader::Malformed();
        const std::string f = fname(n,sfx[n],ent[n]);
        reset_names();
        out.push_back(io_op(o,a,k,f));
        out.push_back(touched(f));
    }
    return out;
}

static Wire dispatch(const std::string& comp,Reader& r) {
    if (comp!="c17") return Wire{-1};
    const size_t m = r.n();
    switch (m) {
        case 0: {   // iteration order of the registered formats
            Wire out{0};
            for (auto io : maths::MathsIO::ios()) out.push_back(fmt_index(io->identity()));
            return out;
        }
        case 1: return run_io(r);
        case 10: {  // write the fixed object of kind k with the explicit format g into w.out
            const size_t g = r.n(), k = r.n();
            if (g>3 || k>3) throw Reader::Malformed();
            unlink("w.out");
            return Wire{io_op(3,g,k,"w.out")};
        }
        case 11: {  // read r.in with the explicit format g as kind k
            const size_t g = r.n(), k = r.n();
            if (g>3 || k>3) throw Reader::Malformed();
            reset_names();
            const ll v = io_op(2,g,k,"r.in");
            return Wire{v,touched("r.in")};
        }
        case 12: {  // maths::info(r.in) with the current format set to g
            const size_t g = r.n();
            if (g>3) throw Reader::Malformed();
            reset_names();
            const ll v = guarded([&]() -> ll { maths::MathsIO::SetCurrentFormat(std::string(FMTNAME[g]),false); maths::info("r.in"); return 0; });
            return Wire{v,touched("r.in")};
        }
        default: return Wire{-1};
    }
}

int main(int argc,char** argv) {
    if (argc<2) { fprintf(stderr,"usage: h_c17 cases.txt\n"); return 2; }
    return run_cases(argv[1],dispatch);
}
