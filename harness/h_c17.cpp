// C17 harness: operation sequences executed in ONE process against the library built from the working tree.
// Machine 1: maths IO state (MathsIO.H/.C, X::load / X::save, format manipulators, maths::info).
// The harness runs in a per-case directory (cwd); contents come from ../pool/c<id> (written by `c17 10`).
#include "wire.h"
#include <unistd.h>
#include <sys/stat.h>
#include <map>
#include <set>
#include <list>
#include <memory>
#include <algorithm>
#include <filesystem>
#include <iterator>
#include <stack>
#include <tuple>
#include <iomanip>
#include <limits>
#include <numeric>
#include <random>
#include <regex>
#include <complex>
#include <cassert>
#include <cfloat>
#include <ctime>
#include <omp.h>
#define private public
#define protected public
#include <matrix.h>
#include <symmatrix.h>
#include <vector.h>
#include <sparse_matrix.h>
#include <MathsIO.H>
#include <geometry.h>
#include <mesh.h>
#include <sensors.h>
#include <assemble.h>
#include <gain.h>
#include <integrator.h>
#undef private
#undef protected

using namespace OpenMEEG;

static const char* SFX[] = { ".mat", ".txt", ".tex", ".bin", ".xyz", "" };
static const char* FMTNAME[] = { "matlab", "ascii", "tex", "binary", "default", "nosuchformat" };

static int fmt_index(const std::string& id) {
    for (int i=0;i<4;++i) if (id==FMTNAME[i]) return i;
    return -1;
}

static std::string fname(size_t n,size_t sfx,size_t entry) {
    std::string s = (entry==0) ? "nodir/f" : "f";
    return s+std::to_string(n)+SFX[sfx];
}

static void copy_file(const std::string& from,const std::string& to) {
    std::ifstream i(from.c_str(),std::ios::binary); std::ofstream o(to.c_str(),std::ios::binary);
    if (!i) throw std::runtime_error("pool content missing: "+from);
    o << i.rdbuf();
}

// the fixed objects written by Save / WriteAs
static Vector fixedV() { Vector v(40); for (unsigned i=0;i<40;++i) v(i) = i+1; return v; }
static Matrix fixedM() { Matrix m(6,5); for (unsigned i=0;i<6;++i) for (unsigned j=0;j<5;++j) m(i,j) = 1+i+10*j; return m; }
static SymMatrix fixedS() { SymMatrix s(6); for (unsigned i=0;i<6;++i) for (unsigned j=i;j<6;++j) s(i,j) = 2+i+7*j; return s; }
static SparseMatrix fixedP() { SparseMatrix p(6,6); p(0,1)=2; p(1,1)=3; p(2,5)=4; p(4,0)=5; p(5,5)=6; return p; }

static ll maths_code(const maths::Exception& e) { return (ll)e.code(); }

static void reset_names() { for (auto io : maths::MathsIO::ios()) io->setName(""); }
static ll touched(const std::string& f) {
    ll m = 0;
    for (auto io : maths::MathsIO::ios()) if (io->name()==f) { const int k = fmt_index(io->identity()); if (k>=0) m |= (1LL<<k); }
    return m;
}

template <typename F> static ll guarded(const F& f) {
    try { return f(); }
    catch (maths::Exception& e) { return maths_code(e); }
    catch (std::invalid_argument&) { return 1; }
    catch (...) { return 3; }
}

static ll dims(const LinOpInfo& l) { return 1000+(ll)(l.nlin()%1000)*1000+(ll)(l.ncol()%1000); }

// opcode: 0 Load 1 Save 2 ReadAs 3 WriteAs 4 WriteSfx 5 Info
static ll io_op(size_t o,size_t a,size_t k,const std::string& f) {
    const char* name = f.c_str();
    auto rd = [&](auto& obj) -> ll {
        switch (o) {
            case 0: obj.load(name); break;
            case 2: { maths::ifstream ifs(name); ifs >> maths::format(FMTNAME[a>5?5:a]) >> obj; } break;
            default: throw Reader::Malformed();
        }
        return dims(obj);
    };
    auto wr = [&](const auto& obj) -> ll {
        switch (o) {
            case 1: obj.save(name); break;
            case 3: { maths::ofstream ofs(name); ofs << maths::format(FMTNAME[a>5?5:a]) << obj; } break;
            case 4: { maths::ofstream ofs(name); ofs << maths::format(name,maths::format::FromSuffix) << obj; } break;
            default: throw Reader::Malformed();
        }
        return 0;
    };
    if (o==5) return guarded([&]() -> ll { maths::info(name); return 0; });
    const bool reading = (o==0 || o==2);
    return guarded([&]() -> ll {
        switch (k) {
            case 0: if (reading) { Vector x; return rd(x); } else return wr(fixedV());
            case 1: if (reading) { Matrix x; return rd(x); } else return wr(fixedM());
            case 2: if (reading) { SymMatrix x; return rd(x); } else return wr(fixedS());
            default: if (reading) { SparseMatrix x; return rd(x); } else return wr(fixedP());
        }
    });
}

static Wire run_io(Reader& r) {
    const size_t init = r.n();
    const size_t nn = r.n();
    std::vector<size_t> sfx(nn), ent(nn);
    for (size_t i=0;i<nn;++i) { sfx[i] = r.n(); ent[i] = r.n(); if (sfx[i]>5) throw Reader::Malformed(); }
    if (init) {
        for (size_t i=0;i<nn;++i) {
            const std::string f = fname(i,sfx[i],ent[i]);
            if (ent[i]==0) continue;
            unlink(f.c_str());
            if (ent[i]>=2) copy_file("../pool/c"+std::to_string(ent[i]-2),f);
        }
    }
    const size_t nops = r.n();
    Wire out;
    for (size_t q=0;q<nops;++q) {
        const size_t o = r.n(), a = r.n(), k = r.n(), n = r.n();
        if (n>=nn || k>3) throw Reader::Malformed();
        const std::string f = fname(n,sfx[n],ent[n]);
        reset_names();
        out.push_back(io_op(o,a,k,f));
        out.push_back(touched(f));
    }
    return out;
}

// ------------------------------------------------------------------ object machines: Geometry, Sensors, Mesh
static ll fnv(const void* p,size_t n,ll h=1469598103934665603ULL) {
    const unsigned char* c = static_cast<const unsigned char*>(p);
    unsigned long long x = (unsigned long long)h;
    for (size_t i=0;i<n;++i) { x ^= c[i]; x *= 1099511628211ULL; }
    return (ll)x;
}
static ll fold(ll h) { return (ll)(((unsigned long long)h)>>14) | 1; }     // 50 bits, never 0
static ll vhash(const Vect3& v) { double d[3] = { v.x(), v.y(), v.z() }; for (double& x : d) if (x==0.0) x = 0.0; return fold(fnv(d,sizeof d)); }
static ll shash(const std::string& s) { return fold(fnv(s.data(),s.size())); }
static ll mhash(const double* d,size_t n) { return fold(fnv(d,n*sizeof(double))); }

struct Catalog {
    std::vector<std::vector<std::string>> G,S,M,L,X,Y;     // G: {"G",geom,cond} or {"I",name,path,...}
    Catalog() {
        std::ifstream in("catalog.txt"); std::string line;
        while (std::getline(in,line)) {
            std::istringstream ls(line); std::vector<std::string> t; std::string x; while (ls >> x) t.push_back(x);
            if (t.empty()) continue;
            if (t[0]=="G" || t[0]=="I") G.push_back(t); else if (t[0]=="S") S.push_back(t); else if (t[0]=="M") M.push_back(t); else if (t[0]=="L") L.push_back(t); else if (t[0]=="X") X.push_back(t); else if (t[0]=="Y") Y.push_back(t);
        }
    }
};
static Catalog& catalog() { static Catalog c; return c; }

template <typename F> static ll guarded_om(const F& f) {
    try { f(); return 0; }
    catch (maths::Exception& e) { return (ll)e.code(); }
    catch (OpenMEEG::Exception& e) { return 2000+(ll)e.code(); }
    catch (std::invalid_argument&) { return 1; }
    catch (...) { return 3; }
}

static ll geom_do(Geometry& g,size_t i) {
    const auto& t = catalog().G.at(i);
    return guarded_om([&]() {
        if (t[0]=="G") { if (t.size()>2 && t[2]!="-") g.load(t[1],t[2]); else g.load(t[1]); }
        else { Geometry::MeshList ml; for (size_t k=1;k+1<t.size();k+=2) ml.push_back({ t[k], t[k+1] }); g.import(ml); }
    });
}
static Wire geom_obs(ll st,Geometry& g) {
    return Wire{ st,(ll)g.vertices().size(),(ll)g.meshes().size(),(ll)g.domains().size(),(ll)g.nb_parameters(),
                 (ll)g.communicating_mesh_pairs().size(),(ll)g.isolated_parts().size(),(ll)g.invalid_vertices_.size(),
                 (ll)g.nb_current_barrier_triangles(),(ll)(g.is_nested()?1:0) };
}
static ll headmat_fp(const Geometry& g) {
    ll fp = 0;
    const ll st = guarded_om([&]() { SymMatrix H = HeadMat(g,Integrator(3,0,0.005)); fp = mhash(H.data(),H.size()); });
    return st ? -(1000000+st) : fp;
}
// what entry i does to a fresh object
static Wire geom_describe(size_t i) {
    Geometry g;
    const ll st = geom_do(g,i);
    const bool fin = (st==0 && catalog().G.at(i)[0]=="G");
    Wire o{ st,(ll)g.vertices().size() };
    size_t valid = 0;
    for (const auto& v : g.vertices()) { o.push_back(vhash(v)); if (v.index()!=unsigned(-1)) ++valid; }
    o.push_back((ll)g.meshes().size()); o.push_back((ll)g.domains().size()); o.push_back(fin);
    const bool marks = fin && g.has_conductivities();
    o.push_back(marks);
    o.push_back((ll)g.invalid_vertices_.size()); for (const auto& v : g.invalid_vertices_) o.push_back(vhash(v));
    std::set<ll> ni; if (marks) for (const auto& m : g.meshes()) if (!m.isolated()) for (const auto& v : m.vertices()) ni.insert(vhash(*v));
    o.push_back((ll)ni.size()); for (ll h : ni) o.push_back(h);
    o.push_back((ll)g.isolated_parts().size());
    o.push_back(fin ? (ll)g.nb_parameters()-(ll)valid : 0);
    o.push_back((ll)g.nb_current_barrier_triangles()); o.push_back((ll)g.communicating_mesh_pairs().size()); o.push_back(g.is_nested()?1:0);
    o.push_back(marks ? headmat_fp(g) : 0);
    return o;
}
static Wire geom_fresh_refinalize(size_t i) {     // load entry i into a fresh object, finalize() again: observation
    Geometry g;
    const ll st = geom_do(g,i);
    if (!(st==0 && catalog().G.at(i)[0]=="G")) return geom_obs(-1,g);
    const ll st2 = guarded_om([&]() { g.finalize(); });
    return geom_obs(st2,g);
}
static Wire run_geom(Reader& r) {
    Geometry g; bool lastfin = false; size_t curentry = (size_t)-1;
    const size_t nops = r.n(); Wire out;
    for (size_t q=0;q<nops;++q) {
        const size_t o = r.n(), i = r.n();
        Wire ob;
        if (o==0) { const ll st = geom_do(g,i); lastfin = (st==0 && catalog().G.at(i)[0]=="G"); curentry = lastfin ? i : (size_t)-1; ob = geom_obs(st,g); }
        else if (o==1) ob = geom_obs((g.meshes().empty() || g.domains().empty() || !g.has_conductivities()) ? -1 : headmat_fp(g),g);
        else if (o==3) {   // a second finalize() on an object whose last load reached finalize
            if (!lastfin) ob = geom_obs(-1,g);
            else { const ll st = guarded_om([&]() { g.finalize(); }); ob = geom_obs(st,g); }
        }
        else if (o==4) {   // programmatic construction on the object as it is: vertices, one mesh, finalize (result not observed)
            guarded_om([&]() {
                Vertices vs; const double c[6][3] = { {7,0,0},{-7,0,0},{0,7,0},{0,-7,0},{0,0,7},{0,0,-7} };
                for (const auto& x : c) vs.push_back(Vertex(x[0],x[1],x[2]));
                const IndexMap im = g.add_vertices(vs);
                Mesh& m = g.add_mesh("polluter");
                m.reference_vertices(im);
                const unsigned t[8][3] = { {0,2,4},{2,1,4},{1,3,4},{3,0,4},{2,0,5},{1,2,5},{3,1,5},{0,3,5} };
                for (const auto& x : t) m.add_triangle(TriangleIndices(x[0],x[1],x[2]),im);
                m.update(true);
                g.finalize();
            });
            lastfin = false; curentry = (size_t)-1;
            ob = Wire{ -3 };
        }
        else if (o==5) {   // set_conductivity in place from the conductivity file of entry i (same geometry file), then finalize()
            const auto& t = catalog().G.at(i);
            if (!lastfin || curentry==(size_t)-1 || t[0]!="G" || t.size()<3 || t[2]=="-" || catalog().G.at(curentry)[1]!=t[1]) ob = geom_obs(-1,g);
            else {
                const ll st = guarded_om([&]() {
                    std::ifstream in(t[2].c_str()); std::string line; std::map<std::string,double> cond;
                    while (std::getline(in,line)) { if (line.empty() || line[0]=='#') continue; std::istringstream ls(line); std::string n; double v; if (ls >> n >> v) cond[n] = v; }
                    for (auto& d : g.domains()) d.set_conductivity(cond.at(d.name()));
                    g.finalize();
                });
                if (st==0) curentry = i;
                ob = geom_obs(st,g);
            }
        }
        else {      // another assembly on the same geometry: one dipole at the centroid of the vertices
            guarded_om([&]() {
                if (g.vertices().empty()) return;
                Vect3 c(0.0,0.0,0.0); for (const auto& v : g.vertices()) c += v; c = c/(double)g.vertices().size();
                Matrix dip(1,6); dip(0,0) = c.x(); dip(0,1) = c.y(); dip(0,2) = c.z(); dip(0,3) = 0; dip(0,4) = 0; dip(0,5) = 1;
                Matrix D = DipSourceMat(g,dip,"");
            });
            ob = geom_obs(-2,g);
        }
        out.push_back((ll)ob.size()); out.insert(out.end(),ob.begin(),ob.end());
    }
    return out;
}

static Geometry& reference_head() {
    static Geometry* g = nullptr;
    if (!g) { const auto& t = catalog().G.at(0); g = new Geometry(t[1],t[2]); }
    return *g;
}
static Geometry& second_head() {      // a head the usual source meshes intersect (catalog X line 3: four nested spheres 0.4 .. 1.0)
    static Geometry* g = nullptr;
    if (!g) { const auto& t = catalog().X.at(3); g = new Geometry(t[1],t[2]); }
    return *g;
}
static Wire sens_obs(ll st,const Sensors& s) {
    if (st) return Wire{ st };
    Wire o{ 0,(ll)s.m_nb,(ll)s.m_positions.nlin(),(ll)s.m_orientations.nlin(),(ll)s.m_weights.nlin(),(ll)s.m_radii.nlin(),(ll)s.m_triangles.size(),
            (ll)(s.hasNames()?1:0),(ll)s.m_names.size() };
    for (const auto& n : s.m_names) o.push_back(shash(n));
    for (size_t k : s.m_pointSensorIdx) o.push_back((ll)k);
    return o;
}
static Wire run_sens(Reader& r,bool describe) {
    const bool geom = r.n()!=0;
    Sensors* s = geom ? new Sensors(reference_head()) : new Sensors();
    const size_t nops = describe ? 1 : r.n(); Wire out;
    for (size_t q=0;q<nops;++q) {
        const size_t i = r.n();
        const std::string f = catalog().S.at(i)[1];
        const ll st = guarded_om([&]() { s->load(f.c_str(),'t'); });
        Wire ob = sens_obs(st,*s);
        if (describe && st) ob.push_back((ll)s->m_positions.nlin());
        out.push_back((ll)ob.size()); out.insert(out.end(),ob.begin(),ob.end());
    }
    return out;
}

static ll surfsource_fp(Mesh& m,bool second=false) {
    ll fp = 0;
    const ll st = guarded_om([&]() { Matrix S = SurfSourceMat(second ? second_head() : reference_head(),m,Integrator(3,0,0.005)); fp = mhash(S.data(),S.size()); });
    return st ? 0 : fp;
}
static Wire mesh_obs(ll st,const Mesh& m) {
    Wire o{ st,(ll)m.geometry().vertices().size(),(ll)m.vertices().size(),(ll)m.triangles().size(),
            (ll)m.outermost(),(ll)m.current_barrier(),(ll)m.isolated() };
    for (const auto& t : m.triangles()) {
        const TriangleIndices ti = m.triangle(t);
        ll a[3] = { (ll)ti[0],(ll)ti[1],(ll)ti[2] }; std::sort(a,a+3);
        o.insert(o.end(),a,a+3);
    }
    std::map<const Vertex*,ll> pos; ll k = 0;
    for (const auto& v : m.vertices()) { if (!pos.count(v)) pos[v] = k; ++k; }
    for (const auto& t : m.triangles()) {
        ll a[3] = { pos.at(&t.vertex(0)),pos.at(&t.vertex(1)),pos.at(&t.vertex(2)) }; std::sort(a,a+3);
        o.insert(o.end(),a,a+3);
    }
    // not modelled, compared with a fresh-object load: number of distinct vertices and what Mesh::save writes
    std::set<const Vertex*> distinct(m.vertices().begin(),m.vertices().end());
    o.push_back((ll)distinct.size());
    ll sh = 0;
    if (!m.vertices().empty()) {
        const ll st2 = guarded_om([&]() { m.save("msave.tri"); });
        std::ifstream in("msave.tri",std::ios::binary); std::stringstream ss; ss << in.rdbuf(); const std::string txt = ss.str();
        sh = st2 ? -st2 : fold(fnv(txt.data(),txt.size()));
    }
    o.push_back(sh);
    return o;
}
static Wire mesh_fresh(size_t i) {     // full observation of entry i loaded into a fresh Mesh
    Mesh m;
    const ll st = guarded_om([&]() { m.load(catalog().M.at(i)[1],false); });
    return mesh_obs(st,m);
}
static Wire mesh_describe(size_t i) {
    Mesh m;
    const ll st = guarded_om([&]() { m.load(catalog().M.at(i)[1],false); });
    Wire o{ st,(ll)m.vertices().size() };
    std::map<const Vertex*,ll> pos; ll k = 0;
    for (const auto& v : m.vertices()) { o.push_back(vhash(*v)); pos[v] = k++; }
    o.push_back((ll)m.triangles().size());
    for (const auto& t : m.triangles()) for (unsigned c=0;c<3;++c) o.push_back(pos.at(&t.vertex(c)));
    o.push_back((st==0 && !m.vertices().empty()) ? surfsource_fp(m) : 0);
    o.push_back((ll)m.current_barrier());
    {   // the same against the second head, on a fresh Mesh object
        Mesh m2; const ll st2 = guarded_om([&]() { m2.load(catalog().M.at(i)[1],false); });
        o.push_back((st2==0 && !m2.vertices().empty()) ? surfsource_fp(m2,true) : 0);
        o.push_back((ll)m2.current_barrier());
    }
    return o;
}
static Wire run_mesh(Reader& r) {
    Mesh m;
    const size_t nops = r.n(); Wire out; bool loaded = false;
    for (size_t q=0;q<nops;++q) {
        const size_t o = r.n(), i = r.n();
        Wire ob;
        if (o==0) { const ll st = guarded_om([&]() { m.load(catalog().M.at(i)[1],false); }); loaded = (st==0); ob = mesh_obs(st,m); }
        else ob = mesh_obs(loaded ? surfsource_fp(m,o==2) : -1,m);
        out.push_back((ll)ob.size()); out.insert(out.end(),ob.begin(),ob.end());
    }
    return out;
}

// ---- machine 5: one persistent Vector / Matrix / SymMatrix / SparseMatrix object
template <typename T> static Wire dense_obs(const T& x) { return Wire{ 0,(ll)x.nlin(),(ll)x.ncol(),1,0,(x.size() && x.data()) ? mhash(x.data(),x.size()) : 1 }; }
static Wire sparse_obs(const SparseMatrix& p) {
    Wire o{ 0,(ll)p.nlin(),(ll)p.ncol(),(ll)p.size() };
    for (auto it=p.begin();it!=p.end();++it) { o.push_back((ll)it->first.first*1048576+(ll)it->first.second); const double v = it->second; o.push_back(mhash(&v,1)); }
    return o;
}
static Wire run_linop(Reader& r,bool describe) {
    const size_t k = r.n();
    if (k>3) throw Reader::Malformed();
    Vector V; Matrix M; SymMatrix S; SparseMatrix P;
    const size_t nops = describe ? 1 : r.n(); Wire out;
    for (size_t q=0;q<nops;++q) {
        const std::string f = catalog().L.at(r.n())[1];
        const ll st = guarded_om([&]() { switch (k) { case 0: V.load(f.c_str()); break; case 1: M.load(f.c_str()); break; case 2: S.load(f.c_str()); break; default: P.load(f.c_str()); } });
        Wire ob = (k==0 ? dense_obs(V) : k==1 ? dense_obs(M) : k==2 ? dense_obs(S) : sparse_obs(P));
        if (st) { ob[0] = st; ob.insert(ob.begin(),-77); }     // failed load: marker, status, then the object as it is left
        out.push_back((ll)ob.size()); out.insert(out.end(),ob.begin(),ob.end());
    }
    return out;
}

// ---- machine 6: computations on shared objects (Head1): every operand is const for every operation
struct Shared {
    Geometry geo; SymMatrix H,Hinv; Matrix dip,DSM,h2meg,ds2meg,rhsM; SparseMatrix v2eeg; Vector rhsV; Sensors eeg,meg;
    Shared() {
        const auto& t = catalog().G.at(0); geo.load(t[1],t[2]);
        const std::string d = t[1].substr(0,t[1].find_last_of('/'));
        H = HeadMat(geo,Integrator(3,0,0.005)); Hinv = H.inverse();
        dip.load((d+"/Head1.dip").c_str()); DSM = DipSourceMat(geo,dip,"");
        eeg.load((d+"/Head1.eeg").c_str(),'t'); meg.load((d+"/Head1.squids").c_str(),'t');
        v2eeg = Head2EEGMat(geo,eeg); h2meg = Head2MEGMat(geo,meg); ds2meg = DipSource2MEGMat(dip,meg);
        rhsM = Matrix(H.nlin(),2); rhsV = Vector(H.nlin());
        for (size_t i=0;i<H.nlin();++i) { rhsV(i) = 1.0+0.25*(i%7); rhsM(i,0) = (i%5)-2.0; rhsM(i,1) = 1.0/(1.0+i); }
    }
    ll sparse_fp(const SparseMatrix& p) const { ll h = 1469598103934665603ULL; for (auto it=p.begin();it!=p.end();++it) { double v = it->second; ll k[2] = { (ll)it->first.first,(ll)it->first.second }; h = fnv(k,sizeof k,h); h = fnv(&v,sizeof v,h); } return fold(h); }
    std::vector<ll> snapshot() {
        Wire g = geom_obs(0,geo); ll gh = fnv(g.data(),g.size()*sizeof(ll));
        for (const auto& v : geo.vertices()) { double c[3] = { v.x(),v.y(),v.z() }; gh = fnv(c,sizeof c,gh); unsigned ix = v.index(); gh = fnv(&ix,sizeof ix,gh); }
        for (const auto& m : geo.meshes()) { bool f[3] = { m.outermost(),m.current_barrier(),m.isolated() }; gh = fnv(f,sizeof f,gh); for (const auto& tr : m.triangles()) { unsigned ix = tr.index(); gh = fnv(&ix,sizeof ix,gh); } }
        return { fold(gh),mhash(H.data(),H.size()),mhash(Hinv.data(),Hinv.size()),mhash(dip.data(),dip.size()),mhash(DSM.data(),DSM.size()),
                 sparse_fp(v2eeg),mhash(h2meg.data(),h2meg.size()),mhash(ds2meg.data(),ds2meg.size()),mhash(rhsM.data(),rhsM.size()),mhash(rhsV.data(),rhsV.size()),
                 mhash(eeg.m_positions.data(),eeg.m_positions.size()),mhash(meg.m_positions.data(),meg.m_positions.size()) };
    }
    ll op(size_t k) {
        const Integrator I(3,0,0.005);
        switch (k) {
            case 0: { const SymMatrix X = HeadMat(geo,I); return mhash(X.data(),X.size()); }
            case 1: { Matrix B(rhsM,DEEP_COPY); const SymMatrix& cH = H; const Matrix X = cH.solveLin(B); return mhash(X.data(),X.size()); }
            case 2: { const SymMatrix& cH = H; const Vector X = cH.solveLin(rhsV); return mhash(X.data(),X.size()); }
            case 3: { const SymMatrix& cH = H; const SymMatrix X = cH.inverse(); return mhash(X.data(),X.size()); }
            case 4: { const Vector X = H*rhsV; return mhash(X.data(),X.size()); }
            case 5: { const GainEEG X(Hinv,DSM,v2eeg); return mhash(X.data(),X.size()); }
            case 6: { const GainEEGadjoint X(geo,dip,H,v2eeg); return mhash(X.data(),X.size()); }
            case 7: { const GainMEGadjoint X(geo,dip,H,h2meg,ds2meg); return mhash(X.data(),X.size()); }
            case 8: { const GainEEGMEGadjoint X(geo,dip,H,v2eeg,h2meg,ds2meg); ll h = fnv(X.EEGleadfield.data(),X.EEGleadfield.size()*sizeof(double)); return fold(fnv(X.MEGleadfield.data(),X.MEGleadfield.size()*sizeof(double),h)); }
            case 9: { const GainMEG X(Hinv,DSM,h2meg,ds2meg); return mhash(X.data(),X.size()); }
            case 10: { const Matrix X = DipSourceMat(geo,dip,""); return mhash(X.data(),X.size()); }
            case 11: { const SparseMatrix X = Head2EEGMat(geo,eeg); return sparse_fp(X); }
            case 12: { const Matrix X = Head2MEGMat(geo,meg); return mhash(X.data(),X.size()); }
            case 13: { const Matrix X = DipSource2MEGMat(dip,meg); return mhash(X.data(),X.size()); }
            case 14: { const Matrix X = Hinv*DSM; return mhash(X.data(),X.size()); }
            default: throw Reader::Malformed();
        }
    }
};
static const size_t N_COMPUTE_OPS = 15;
// c17 6 nops k... : per operation (result fingerprint or -status, bit mask of the shared operands whose bits changed)
static Wire run_compute(Reader& r) {
    Shared S;
    const std::vector<ll> ref = S.snapshot();
    Wire out{ (ll)ref.size() }; out.insert(out.end(),ref.begin(),ref.end());
    const size_t nops = r.n();
    for (size_t q=0;q<nops;++q) {
        const size_t k = r.n(); ll fp = 0;
        const ll st = guarded_om([&]() { fp = S.op(k); });
        const std::vector<ll> now = S.snapshot(); ll mask = 0;
        for (size_t i=0;i<ref.size();++i) if (now[i]!=ref[i]) mask |= (1LL<<i);
        out.push_back(st ? -st : fp); out.push_back(mask);
    }
    return out;
}

// ---- machine 8: point-locating assemblies interleaved on SEVERAL Geometry objects alive in one process
struct Multi {
    std::vector<Geometry*> geos; Matrix dip,pts; std::string src;
    Multi(const std::vector<size_t>& which) {
        for (size_t k : which) { const auto& t = catalog().X.at(k); geos.push_back(new Geometry(t[1],t[2])); }
        dip = Matrix(3,6); const double d[3][6] = { {0,0,0.2,0,0,1},{0.1,0,0.3,1,0,0},{0,0.2,0.1,0,1,0} };
        for (unsigned i=0;i<3;++i) for (unsigned j=0;j<6;++j) dip(i,j) = d[i][j];
        pts = Matrix(2,3); pts(0,0)=0; pts(0,1)=0; pts(0,2)=0.1; pts(1,0)=0.05; pts(1,1)=0.05; pts(1,2)=0.3;
        src = catalog().Y.at(0)[1];
    }
    static ll geo_fp(Geometry& geo) {
        Wire g = geom_obs(0,geo); ll gh = fnv(g.data(),g.size()*sizeof(ll));
        for (const auto& v : geo.vertices()) { double c[3] = { v.x(),v.y(),v.z() }; gh = fnv(c,sizeof c,gh); unsigned ix = v.index(); gh = fnv(&ix,sizeof ix,gh); }
        for (const auto& m : geo.meshes()) { bool f[3] = { m.outermost(),m.current_barrier(),m.isolated() }; gh = fnv(f,sizeof f,gh); for (const auto& tr : m.triangles()) { unsigned ix = tr.index(); gh = fnv(&ix,sizeof ix,gh); } }
        for (const auto& d : geo.domains()) { double c = d.conductivity(); gh = fnv(&c,sizeof c,gh); }
        return fold(gh);
    }
    std::vector<ll> snapshot() { std::vector<ll> v; for (auto g : geos) v.push_back(geo_fp(*g)); v.push_back(mhash(dip.data(),dip.size())); v.push_back(mhash(pts.data(),pts.size())); return v; }
    ll op(size_t g,size_t t) {
        const Geometry& geo = *geos.at(g);
        switch (t) {
            case 0: { const Matrix X = DipSourceMat(geo,dip,""); return mhash(X.data(),X.size()); }
            case 1: { const Matrix X = DipSource2InternalPotMat(geo,dip,pts,""); return mhash(X.data(),X.size()); }
            case 2: { const Matrix X = Surf2VolMat(geo,pts); return mhash(X.data(),X.size()); }
            case 3: { Mesh m; m.load(src,false); const Matrix X = SurfSourceMat(geo,m,Integrator(3,0,0.005)); return mhash(X.data(),X.size()); }
            default: throw Reader::Malformed();
        }
    }
};
// c17 8 ngeo nops {g t}* : all geometries alive; (result or -status, mask of changed operands) per operation
static Wire run_multi(Reader& r) {
    const size_t ngeo = r.n(); std::vector<size_t> which; for (size_t k=0;k<ngeo;++k) which.push_back(k);
    Multi M(which);
    const std::vector<ll> ref = M.snapshot();
    Wire out{ (ll)ref.size() }; out.insert(out.end(),ref.begin(),ref.end());
    const size_t nops = r.n();
    for (size_t q=0;q<nops;++q) {
        const size_t g = r.n(), t = r.n(); ll fp = 0;
        const ll st = guarded_om([&]() { fp = M.op(g,t); });
        const std::vector<ll> now = M.snapshot(); ll mask = 0;
        for (size_t i=0;i<ref.size();++i) if (now[i]!=ref[i]) mask |= (1LL<<i);
        out.push_back(st ? -st : fp); out.push_back(mask);
    }
    return out;
}
// c17 81 g t : the only geometry of the process
static Wire multi_fresh(Reader& r) {
    const size_t g = r.n(), t = r.n();
    Multi M(std::vector<size_t>{ g }); ll fp = 0;
    const ll gf = Multi::geo_fp(*M.geos[0]);
    const ll st = guarded_om([&]() { fp = M.op(0,t); });
    return Wire{ st ? -st : fp,gf,mhash(M.dip.data(),M.dip.size()),mhash(M.pts.data(),M.pts.size()) };
}

static Wire dispatch(const std::string& comp,Reader& r) {
    if (comp!="c17") return Wire{-1};
    const size_t m = r.n();
    switch (m) {
        case 0: {   // iteration order of the registered formats
            Wire out{0};
            for (auto io : maths::MathsIO::ios()) out.push_back(fmt_index(io->identity()));
            return out;
        }
        case 1: return run_io(r);
        case 2: return run_geom(r);
        case 20: return geom_describe(r.n());
        case 3: return run_sens(r,false);
        case 30: return run_sens(r,true);
        case 4: return run_mesh(r);
        case 40: return mesh_describe(r.n());
        case 41: return mesh_fresh(r.n());
        case 21: return geom_fresh_refinalize(r.n());
        case 6: return run_compute(r);
        case 8: return run_multi(r);
        case 81: return multi_fresh(r);
        case 5: return run_linop(r,false);
        case 50: return run_linop(r,true);
        case 10: {  // write the fixed object of kind k with the explicit format g into w.out
            const size_t g = r.n(), k = r.n();
            if (g>3 || k>3) throw Reader::Malformed();
            unlink("w.out");
            return Wire{io_op(3,g,k,"w.out")};
        }
        case 11: {  // read r.in with the explicit format g as kind k
            const size_t g = r.n(), k = r.n();
            if (g>3 || k>3) throw Reader::Malformed();
            reset_names();
            const ll v = io_op(2,g,k,"r.in");
            return Wire{v,touched("r.in")};
        }
        case 12: {  // maths::info(r.in) with the current format set to g
            const size_t g = r.n();
            if (g>3) throw Reader::Malformed();
            reset_names();
            const ll v = guarded([&]() -> ll { maths::MathsIO::SetCurrentFormat(std::string(FMTNAME[g]),false); maths::info("r.in"); return 0; });
            return Wire{v,touched("r.in")};
        }
        default: return Wire{-1};
    }
}

int main(int argc,char** argv) {
    if (argc<2) { fprintf(stderr,"usage: h_c17 cases.txt\n"); return 2; }
    return run_cases(argv[1],dispatch);
}
