// C20 harness: the library calls the command-line tools stand for, on files given by ROLE (not by argv position).
// Case file: one line per case, "<op> <arg> <arg> ..." (whitespace separated, "-" = empty string).
// Output: one line per case, "<status> [text]"; status 0 ok, 1 std::invalid_argument, 2 maths::Exception, 3 other.
#include <cstdio>
#include <cstdlib>
#include <cstring>
#include <cmath>
#include <string>
#include <vector>
#include <sstream>
#include <iostream>
#include <fstream>
#include <stdexcept>

#include <matrix.h>
#include <symmatrix.h>
#include <sparse_matrix.h>
#include <vector.h>
#include <mesh.h>
#include <geometry.h>
#include <sensors.h>
#include <assemble.h>
#include <gain.h>
#include <forward.h>
#include <integrator.h>

using namespace OpenMEEG;
typedef std::vector<std::string> Args;
#define STR(i) (a.at(i))
#define ARG(i) (a.at(i).c_str())

static std::string E(const std::string& s) { return (s=="-") ? std::string() : s; }

struct Silence {
    std::streambuf *o,*e; std::ostringstream sink;
    Silence() { o = std::cout.rdbuf(sink.rdbuf()); e = std::cerr.rdbuf(sink.rdbuf()); }
    ~Silence() { std::cout.rdbuf(o); std::cerr.rdbuf(e); }
};

template <typename M> static bool same_bits(const M& A,const M& B) {
    if (A.nlin()!=B.nlin() || A.ncol()!=B.ncol()) return false;
    return A.size()==B.size() && (A.size()==0 || std::memcmp(A.data(),B.data(),A.size()*sizeof(double))==0);
}

static double maxreldiff(const Matrix& A,const Matrix& B) {
    if (A.nlin()!=B.nlin() || A.ncol()!=B.ncol()) return 1e300;
    double d = 0, s = 0;
    for (size_t i=0;i<A.nlin();++i) for (size_t j=0;j<A.ncol();++j) { d = std::max(d,std::fabs(A(i,j)-B(i,j))); s = std::max(s,std::fabs(A(i,j))); }
    return (s>0) ? d/s : d;
}

static std::string run(const Args& a) {
    const std::string& op = STR(0);
    std::ostringstream out;
    if (op=="HM") {                    // geom cond out old
        const Geometry geo(ARG(1),ARG(2),STR(4)=="1");
        if (!geo.selfCheck()) return "0 selfcheck";
        HeadMat(geo).save(ARG(3));
    } else if (op=="CM") {             // geom cond sensors domain out mode x y file old    mode: none|gamma|alphabeta
        const Geometry geo(ARG(1),ARG(2),a.size()>10 && STR(10)=="1");
        const Sensors electrodes(ARG(3));
        const SparseMatrix M = Head2EEGMat(geo,electrodes);
        const std::string mode = STR(6);
        const double x = atof(ARG(7)), y = atof(ARG(8));
        const std::string file = E(STR(9));
        Matrix CM;
        if (mode=="gamma")          CM = CorticalMat2(geo,M,ARG(4),x,file);
        else if (mode=="alphabeta") CM = CorticalMat(geo,M,ARG(4),x,y,file);
        else                        CM = CorticalMat(geo,M,ARG(4),-1.0,-1.0,file);
        CM.save(ARG(5));
    } else if (op=="SSM") {            // geom cond mesh out old
        const Geometry geo(ARG(1),ARG(2),STR(5)=="1");
        Mesh src(ARG(3));
        SurfSourceMat(geo,src).save(ARG(4));
    } else if (op=="DSM") {            // geom cond dip out domain adapt old
        const Geometry geo(ARG(1),ARG(2),STR(7)=="1");
        const Matrix dipoles(ARG(3));
        const Matrix dsm = (STR(6)=="1") ? DipSourceMat(geo,dipoles,E(STR(5)))
                                          : DipSourceMat(geo,dipoles,Integrator(3,0,0.001),E(STR(5)));
        dsm.save(ARG(4));
    } else if (op=="DSMDIFF") {        // geom cond dip : max relative difference between the adaptive and the non-adaptive source matrix
        const Geometry geo(ARG(1),ARG(2),false);
        const Matrix dipoles(ARG(3));
        const Matrix A = DipSourceMat(geo,dipoles,"");
        const Matrix N = DipSourceMat(geo,dipoles,Integrator(3,0,0.001),"");
        char b[64]; snprintf(b,sizeof b,"%.3e",maxreldiff(A,N)); out << " " << b;
    } else if (op=="EITSM") {          // geom cond electrodes out old
        const Geometry geo(ARG(1),ARG(2),STR(5)=="1");
        const Sensors electrodes(ARG(3),geo);
        EITSourceMat(geo,electrodes).save(ARG(4));
    } else if (op=="H2EM") {           // geom cond electrodes out old
        const Geometry geo(ARG(1),ARG(2),STR(5)=="1");
        const Sensors electrodes(ARG(3));
        Head2EEGMat(geo,electrodes).save(ARG(4));
    } else if (op=="H2ECOGM") {        // geom cond electrodes iface out old
        const Geometry geo(ARG(1),ARG(2),STR(6)=="1");
        const Sensors electrodes(ARG(3));
        const std::string iface = E(STR(4));
        const SparseMatrix m = (iface=="") ? Head2ECoGMat(geo,electrodes,geo.innermost_interface())
                                           : Head2ECoGMat(geo,electrodes,iface);
        m.save(ARG(5));
    } else if (op=="H2MM") {           // geom cond squids out old
        const Geometry geo(ARG(1),ARG(2),STR(5)=="1");
        const Sensors sensors(ARG(3));
        Head2MEGMat(geo,sensors).save(ARG(4));
    } else if (op=="SS2MM") {          // mesh squids out
        const Mesh src(ARG(1));
        const Sensors sensors(ARG(2));
        SurfSource2MEGMat(src,sensors).save(ARG(3));
    } else if (op=="DS2MM") {          // dip squids out
        const Matrix dipoles(ARG(1));
        const Sensors sensors(ARG(2));
        DipSource2MEGMat(dipoles,sensors).save(ARG(3));
    } else if (op=="H2IPM") {          // geom cond points out old
        const Geometry geo(ARG(1),ARG(2),STR(5)=="1");
        const Matrix points(ARG(3));
        Surf2VolMat(geo,points).save(ARG(4));
    } else if (op=="DS2IPM") {         // geom cond dip points out domain old
        const Geometry geo(ARG(1),ARG(2),STR(7)=="1");
        const Matrix dipoles(ARG(3));
        const Matrix points(ARG(4));
        DipSource2InternalPotMat(geo,dipoles,points,E(STR(6))).save(ARG(5));
    } else if (op=="EEG") {            // hminv src h2em out
        const SymMatrix Hinv(ARG(1)); const Matrix S(ARG(2)); const SparseMatrix H2E(ARG(3));
        GainEEG(Hinv,S,H2E).save(ARG(4));
    } else if (op=="MEG") {            // hminv src h2mm s2mm out
        const SymMatrix Hinv(ARG(1)); const Matrix S(ARG(2)); const Matrix H2M(ARG(3)); const Matrix S2M(ARG(4));
        GainMEG(Hinv,S,H2M,S2M).save(ARG(5));
    } else if (op=="EEGadjoint") {     // geom cond dip hm h2em out
        Geometry geo(ARG(1),ARG(2));
        const Matrix dipoles(ARG(3)); const SymMatrix HM(ARG(4)); const SparseMatrix H2E(ARG(5));
        GainEEGadjoint(geo,dipoles,HM,H2E).save(ARG(6));
    } else if (op=="MEGadjoint") {     // geom cond dip hm h2mm s2mm out
        Geometry geo(ARG(1),ARG(2));
        const Matrix dipoles(ARG(3)); const SymMatrix HM(ARG(4)); const Matrix H2M(ARG(5)); const Matrix S2M(ARG(6));
        GainMEGadjoint(geo,dipoles,HM,H2M,S2M).save(ARG(7));
    } else if (op=="EEGMEGadjoint") {  // geom cond dip hm h2em h2mm s2mm outeeg outmeg
        Geometry geo(ARG(1),ARG(2));
        const Matrix dipoles(ARG(3)); const SymMatrix HM(ARG(4)); const SparseMatrix H2E(ARG(5)); const Matrix H2M(ARG(6)); const Matrix S2M(ARG(7));
        const GainEEGMEGadjoint G(geo,dipoles,HM,H2E,H2M,S2M);
        G.saveEEG(ARG(8)); G.saveMEG(ARG(9));
    } else if (op=="IP") {             // hminv src h2ip s2ip out
        const SymMatrix Hinv(ARG(1)); const Matrix S(ARG(2)); const Matrix H2IP(ARG(3)); const Matrix S2IP(ARG(4));
        GainInternalPot(Hinv,S,H2IP,S2IP).save(ARG(5));
    } else if (op=="EITIP") {          // hminv src h2ip out
        const SymMatrix Hinv(ARG(1)); const Matrix S(ARG(2)); const Matrix H2IP(ARG(3));
        GainEITInternalPot(Hinv,S,H2IP).save(ARG(4));
    } else if (op=="GAINALT") {        // hminv src h2mm s2mm toolout : max relative difference between S2+A*(Hinv*S) and the tool's output
        const SymMatrix Hinv(ARG(1)); const Matrix S(ARG(2)); const Matrix A(ARG(3)); const Matrix S2(ARG(4)); const Matrix T(ARG(5));
        const Matrix HS = Hinv*S;
        const Matrix R = S2+A*HS;
        char b[64]; snprintf(b,sizeof b,"%.3e",maxreldiff(R,T)); out << " " << b;
    } else if (op=="MINV") {           // hm out
        SymMatrix H; H.load(ARG(1)); H.invert(); H.save(ARG(2));
    } else if (op=="FWD") {            // gain src out noise
        const Matrix G(ARG(1)); const Matrix S(ARG(2));
        const Forward F(G,S,atof(ARG(4)));
        F.save(ARG(3));
    } else if (op=="MCONV") {          // kind in out informat outformat
        const std::string kind = STR(1), inf = E(STR(4)), outf = E(STR(5));
        maths::ifstream ifs(ARG(2));
        maths::ofstream ofs(ARG(3));
        auto conv = [&](auto M) {
            if (inf!="") ifs >> maths::format(inf) >> M; else ifs >> M;
            if (outf!="") ofs << maths::format(outf) << M; else ofs << maths::format(STR(3),maths::format::FromSuffix) << M;
        };
        if (kind=="vector") conv(Vector()); else if (kind=="matrix") conv(Matrix());
        else if (kind=="sym") conv(SymMatrix()); else conv(SparseMatrix());
    } else if (op=="CHECK") {          // geom mesh dip  -> expected exit status of om_check_geom
        Geometry g(ARG(1));
        int rc = 0;
        if (!g.selfCheck()) rc = 1;
        if (rc==0 && E(STR(2))!="") { Mesh m(ARG(2)); if (!g.check(m)) rc = 1; }
        if (rc==0 && E(STR(3))!="") {
            if (!g.is_nested()) rc = 1;
            else { Matrix dip(ARG(3)); if (!g.check_inner(dip)) rc = 1; }
        }
        out << " " << rc;
    } else if (op=="MESHCONV") {       // in out tx ty tz sx sy sz mat invert
        Mesh m(ARG(1));
        const double tx = atof(ARG(3)), ty = atof(ARG(4)), tz = atof(ARG(5));
        const double sx = atof(ARG(6)), sy = atof(ARG(7)), sz = atof(ARG(8));
        for (const auto& vertex : m.vertices()) { Vertex& v = *vertex; v(0) = v(0)*sx+tx; v(1) = v(1)*sy+ty; v(2) = v(2)*sz+tz; }
        if (E(STR(9))!="") {
            Matrix mat; mat.load(ARG(9));
            for (const auto& vertex : m.vertices()) {
                Vertex& v = *vertex;
                Vector p(4); p.set(1.0); p(0) = v(0); p(1) = v(1); p(2) = v(2);
                Vector q = mat*p;
                v(0) = q(0); v(1) = q(1); v(2) = q(2);
            }
        }
        if (STR(10)=="1") m.change_orientation();
        m.correct_local_orientation();
        m.save(ARG(2));
    } else if (op=="MESHCAT") {        // in1 in2 out
        Mesh m1(ARG(1)); Mesh m2(ARG(2)); Mesh m3;
        m3.merge(m1,m2);
        m3.save(ARG(3));
    } else if (op=="CMP") {            // kind f1 f2 [format] : bitwise equality of the loaded objects (explicit format: not from the suffix)
        const std::string kind = STR(1);
        const std::string fmt = (a.size()>4) ? E(STR(4)) : std::string();
        auto load = [&](auto& M,const char* f) {
            maths::ifstream ifs(f);
            if (fmt!="") ifs >> maths::format(fmt) >> M; else ifs >> M;
        };
        bool eq = false;
        if (kind=="matrix") { Matrix A, B; load(A,ARG(2)); load(B,ARG(3)); eq = same_bits(A,B); }
        else if (kind=="sym") { SymMatrix A, B; load(A,ARG(2)); load(B,ARG(3)); eq = A.nlin()==B.nlin() && std::memcmp(A.data(),B.data(),A.size()*sizeof(double))==0; }
        else if (kind=="vector") { Vector A, B; load(A,ARG(2)); load(B,ARG(3)); eq = A.size()==B.size() && std::memcmp(A.data(),B.data(),A.size()*sizeof(double))==0; }
        else if (kind=="sparse") {
            SparseMatrix A, B; load(A,ARG(2)); load(B,ARG(3));
            eq = A.nlin()==B.nlin() && A.ncol()==B.ncol() && A.size()==B.size();
            if (eq) { auto ia = A.begin(); auto ib = B.begin();
                      for (; ia!=A.end() && ib!=B.end(); ++ia, ++ib)
                          if (ia->first!=ib->first || std::memcmp(&ia->second,&ib->second,sizeof(double))!=0) { eq = false; break; } }
        }
        out << " " << (eq ? 1 : 0);
    } else if (op=="PIPE") {           // geom cond dip electrodes squids outeeg outmeg : the whole pipeline in memory
        const Geometry geo(ARG(1),ARG(2),false);
        const Matrix dipoles(ARG(3));
        SymMatrix H = HeadMat(geo);
        H.invert();
        const Matrix dsm = DipSourceMat(geo,dipoles,"");
        const Sensors electrodes(ARG(4));
        const SparseMatrix h2e = Head2EEGMat(geo,electrodes);
        GainEEG(H,dsm,h2e).save(ARG(6));
        const Sensors squids(ARG(5));
        const Matrix h2m = Head2MEGMat(geo,squids);
        const Matrix ds2m = DipSource2MEGMat(dipoles,squids);
        GainMEG(H,dsm,h2m,ds2m).save(ARG(7));
    } else {
        return "3 unknown-op";
    }
    return "0" + out.str();
}

int main(int argc,char** argv) {
    if (argc<2) { fprintf(stderr,"usage: h_c20 cases.txt\n"); return 2; }
    std::ifstream in(argv[1]);
    if (!in) { fprintf(stderr,"cannot open %s\n",argv[1]); return 2; }
    std::string line;
    while (std::getline(in,line)) {
        std::istringstream ls(line);
        Args a; std::string t;
        while (ls >> t) a.push_back(t);
        std::string res;
        if (a.empty()) res = "3 empty";
        else {
            try { Silence s; res = run(a); }
            catch (std::invalid_argument& e) { res = std::string("1 ")+e.what(); }
            catch (OpenMEEG::maths::Exception& e) { res = std::string("2 ")+e.what(); }
            catch (std::out_of_range& e) { res = std::string("3 out_of_range ")+e.what(); }
            catch (std::exception& e) { res = std::string("3 ")+e.what(); }
            catch (...) { res = "3 unknown"; }
        }
        for (char& c : res) if (c=='\n') c = ' ';
        printf("%s\n",res.c_str());
        fflush(stdout);
    }
    return 0;
}
