// C11 harness: loads a generated description with the library built from the current working tree and dumps
// everything Geometry derived from it, in the layout of coq/Geom/RunC11.v (run_case).
#include "wire.h"
#include <set>
#include <map>
#include <memory>
#include <filesystem>
#include <algorithm>
#include <iterator>
#include <stack>
#include <limits>
#include <locale>
#include <ctime>
#define private public
#define protected public
#include <geometry.h>
#include <mesh.h>
#include <interface.h>
#include <domain.h>
#undef private
#undef protected
#include "wire.h"

using namespace OpenMEEG;

static std::string casedir(ll id) { return "c" + std::to_string(id); }

// ints: 1 id has_cond old_ordering [preload] | floats: probe coordinates (x y z)*
static FWire c11_load(Reader& r, FReader& fr) {
    ll id = r.z(); bool has_cond = r.z()!=0; bool old = r.z()!=0;
    const bool preload = !r.done() && r.z()!=0;   // the object has already loaded the same description once
    std::vector<Vect3> probes;
    while (!fr.done()) { double x=fr.x(), y=fr.x(), z=fr.x(); probes.push_back(Vect3(x,y,z)); }
    const std::string d = casedir(id);
    FWire out;
    Geometry geo;
    if (preload) {
        try { if (has_cond) geo.load(d+"/model.geom", d+"/model.cond", old); else geo.load(d+"/model.geom", old); } catch (...) { }
    }
    try {
        if (has_cond) geo.load(d+"/model.geom", d+"/model.cond", old);
        else          geo.load(d+"/model.geom", old);
    } catch (std::invalid_argument&) { out.z = Wire{ST_ASSERT}; return out; }
      catch (...) { out.z = Wire{ST_OTHER}; return out; }

    Wire& o = out.z;
    const Vertex* vbase = geo.vertices().data();
    const Mesh*   mbase = geo.meshes().data();
    auto vid = [&](const Vertex& v) { return (ll)(&v-vbase); };
    auto idx = [](unsigned i) { return (i==unsigned(-1)) ? (ll)-1 : (ll)i; };
    o.push_back(ST_OK);
    o.push_back((ll)geo.vertices().size());
    for (const auto& v : geo.vertices()) o.push_back(idx(v.index()));
    const size_t nm = geo.meshes().size();
    o.push_back((ll)nm);
    for (const auto& m : geo.meshes()) {
        o.push_back(m.current_barrier()); o.push_back(m.isolated()); o.push_back(m.outermost());
        o.push_back((ll)m.vertices().size());
        for (const auto& vp : m.vertices()) o.push_back(vid(*vp));
        o.push_back((ll)m.triangles().size());
        for (const auto& t : m.triangles()) o.push_back(idx(t.index()));
        for (const auto& t : m.triangles()) for (unsigned k=0;k<3;++k) o.push_back(vid(t.vertex(k)));
    }
    o.push_back((ll)geo.nb_parameters());
    o.push_back((ll)geo.nb_current_barrier_triangles());
    o.push_back((ll)geo.nb_invalid_vertices());
    o.push_back(geo.is_nested());
    o.push_back(geo.outer_domain ? (ll)(geo.outer_domain-geo.domains().data()) : -1);
    o.push_back((ll)geo.communicating_mesh_pairs().size());
    for (const auto& p : geo.communicating_mesh_pairs()) {
        o.push_back((ll)(&p(0)-mbase)); o.push_back((ll)(&p(1)-mbase)); o.push_back(p.relative_orientation());
    }
    for (size_t i=0;i<nm;++i) for (size_t j=0;j<nm;++j) o.push_back(geo.relative_orientation(geo.meshes()[i],geo.meshes()[j]));
    o.push_back((ll)geo.isolated_parts().size());
    for (const auto& part : geo.isolated_parts()) {
        o.push_back((ll)part.size());
        for (const auto& mp : part) o.push_back((ll)(mp-mbase));
    }
    for (const auto& p : probes) {
        ll k = -1;
        try { const Domain& dm = geo.domain(p); k = (ll)(&dm-geo.domains().data()); } catch (...) { k = -1; }
        o.push_back(k);
    }
    o.push_back((ll)geo.domains().size());
    for (const auto& dm : geo.domains()) {
        o.push_back((ll)dm.boundaries().size());
        for (const auto& b : dm.boundaries()) {
            o.push_back(b.inside());
            o.push_back((ll)b.interface().oriented_meshes().size());
            for (const auto& om : b.interface().oriented_meshes()) { o.push_back(om.orientation()); o.push_back((ll)(&om.mesh()-mbase)); }
        }
    }
    // Geometry::save as .geom, read back section by section: "Meshes n" + Mesh lines, "Interfaces n" + Interface lines
    {
        const std::string sp = d+"/saved.geom";
        geo.save(sp);
        std::ifstream is(sp);
        std::string line; ll nmh=-1,nih=-1; std::vector<ll> ml; std::vector<std::vector<std::pair<ll,ll>>> il;
        auto mesh_index = [&](const std::string& name) { for (size_t k=0;k<nm;++k) if (geo.meshes()[k].name()==name) return (ll)k; return (ll)-1; };
        while (std::getline(is,line)) {
            std::istringstream ls(line); std::string kw; ls >> kw;
            if (kw=="Meshes") ls >> nmh;
            else if (kw=="Interfaces") ls >> nih;
            else if (kw=="Mesh") { std::string name; ls >> name; if (!name.empty() && name.back()==':') name.pop_back(); ml.push_back(mesh_index(name)); }
            else if (kw=="Interface") {
                std::string name,tok; ls >> name; std::vector<std::pair<ll,ll>> oms;
                while (ls >> tok) { ll sgn = (tok[0]=='-') ? -1 : 1; if (tok[0]=='-'||tok[0]=='+') tok = tok.substr(1); oms.push_back({sgn,mesh_index(tok)}); }
                il.push_back(oms);
            }
        }
        o.push_back(nmh); if (nmh!=(ll)ml.size()) o.push_back(-777);
        for (ll k : ml) o.push_back(k);
        o.push_back(nih); if (nih!=(ll)il.size()) o.push_back(-777);
        for (const auto& oms : il) { o.push_back((ll)oms.size()); for (const auto& om : oms) { o.push_back(om.first); o.push_back(om.second); } }
    }
    // stored Triangle::normal()/area() against the vertex order the triangle has after the load
    {
        ll badn = 0;
        for (const auto& m : geo.meshes())
            for (const auto& t : m.triangles()) {
                const Vect3 nd = crossprod(t.vertex(0)-t.vertex(1),t.vertex(0)-t.vertex(2));
                const double a = nd.norm()/2.0;
                if (!(a>0.0)) continue;
                const double c = dotprod(nd,t.normal())/(2.0*a);
                if (!(c>0.999999) || !(std::fabs(t.area()-a)<=1e-12*a)) ++badn;
            }
        o.push_back(badn);
    }
    for (size_t i=0;i<nm;++i) for (size_t j=0;j<nm;++j) {
        out.f.push_back(geo.sigma(geo.meshes()[i],geo.meshes()[j]));
        out.f.push_back(geo.sigma_inv(geo.meshes()[i],geo.meshes()[j]));
        out.f.push_back(geo.indicator(geo.meshes()[i],geo.meshes()[j]));
    }
    for (size_t i=0;i<nm;++i) out.f.push_back(geo.conductivity_jump(geo.meshes()[i]));
    for (const auto& dm : geo.domains()) out.f.push_back(dm.conductivity());
    // names and conductivities by domain, for the name-level comparison done by the check (not part of the model wire)
    {
        std::ofstream nf(d+"/loaded.txt");
        for (const auto& m : geo.meshes()) nf << "mesh " << m.name() << "\n";
        for (const auto& dm : geo.domains()) {
            char b[64]; snprintf(b,sizeof b,"%a",dm.conductivity());
            nf << "domain " << dm.name() << " " << b;
            for (const auto& bd : dm.boundaries()) nf << " " << (bd.inside() ? '-' : '+') << bd.interface().name();
            nf << "\n";
        }
    }
    return out;
}

int main(int argc,char** argv) {
    if (argc<2) return 2;
    return run_cases_f(argv[1],[](const std::string& comp,Reader& r,FReader& fr)->FWire {
        if (comp!="c11") throw Reader::Malformed();
        ll op = r.z();
        switch (op) {
        case 1: return c11_load(r,fr);
        default: throw Reader::Malformed();
        }
    });
}
