// C04 harness: the six gain computations of gain.h on a generated head, plus their operand matrices.
// Files in <cwd>/m<id>/: model.geom model.cond eeg.txt (electrode positions) meg.txt (squids: position orientation).
#include "wire.h"
#include <map>
#include <memory>
#include <geometry.h>
#include <assemble.h>
#include <sensors.h>
#include <matrix.h>
#include <sparse_matrix.h>
#include <symmatrix.h>
#include <progressbar.h>
#define private public
#include <gain.h>
#undef private

using namespace OpenMEEG;

// LAPACKE / BLAS report illegal arguments by printing to the C stdout, which would corrupt the result lines: count instead
static int xerbla_calls = 0;
extern "C" void LAPACKE_xerbla(const char*,int) { ++xerbla_calls; }
extern "C" void cblas_xerbla(blasint,char*,char*,...) { ++xerbla_calls; }

static void put(std::vector<double>& f,const Matrix& M) {      // row-major
    for (size_t i=0;i<M.nlin();++i) for (size_t j=0;j<M.ncol();++j) f.push_back(M(i,j));
}

static FWire c04(Reader& r,FReader& f) {
    const ll op = r.z();
    if (op!=1) return FWire{Wire{-1},{}};
    const ll mid = r.z(); const size_t nd = r.n();
    const std::string d = "m"+std::to_string(mid)+"/";
    Geometry geo(d+"model.geom",d+"model.cond");
    Matrix dipoles(nd,6); for (size_t i=0;i<nd;++i) for (int k=0;k<6;++k) dipoles(i,k)=f.x();
    const Sensors electrodes((d+"eeg.txt").c_str());
    const Sensors squids((d+"meg.txt").c_str());

    int stage = 0;      // which computation was in flight when something threw (reported as status 10+stage)
    try {
    stage = 1;
    const SymMatrix HM = HeadMat(geo);
    // the direct path is built as the tools build it (om_assemble -DSM: explicit Integrator(3,10,0.001)); the adjoint classes
    // call the 3-argument overload with its own default integrator: the two must be the same integrator
    stage = 2; const Matrix SM = DipSourceMat(geo,dipoles,Integrator(3,10,0.001),"");
    stage = 3; const SparseMatrix H2E = Head2EEGMat(geo,electrodes);
    stage = 4; const Matrix H2M = Head2MEGMat(geo,squids);
    stage = 5; const Matrix S2M = DipSource2MEGMat(dipoles,squids);
    stage = 6; const SymMatrix HMi = HM.inverse();

    stage = 7; const GainEEG g1(HMi,SM,H2E);
    stage = 8; const GainEEGadjoint g2(geo,dipoles,HM,H2E);
    stage = 9; const GainMEG g4(HMi,SM,H2M,S2M);
    stage = 10; const GainMEGadjoint g5(geo,dipoles,HM,H2M,S2M);
    // GainEEGMEGadjoint keeps its lead fields private (reached with #define private public around gain.h only)
    stage = 11; const GainEEGMEGadjoint g36(geo,dipoles,HM,H2E,H2M,S2M);
    const Matrix& g3 = g36.EEGleadfield; const Matrix& g6 = g36.MEGleadfield;

    // condition number of the head matrix (2-norm, SVD)
    stage = 12; Matrix U,V; SparseMatrix Sg; Matrix(HM).svd(U,Sg,V,false);
    double smax=0, smin=1e300; for (size_t i=0;i<HM.nlin();++i) { const double s=Sg(i,i); if (s>smax) smax=s; if (s<smin) smin=s; }

    FWire o; o.z = Wire{ST_OK,(ll)HM.nlin(),(ll)nd,(ll)H2E.nlin(),(ll)H2M.nlin()};
    o.f.push_back(smin>0 ? smax/smin : 1e300);
    put(o.f,g1); put(o.f,g2); put(o.f,g3); put(o.f,g4); put(o.f,g5); put(o.f,g6);
    put(o.f,Matrix(HM)); put(o.f,SM); put(o.f,Matrix(H2E)); put(o.f,H2M); put(o.f,S2M);
    return o;
    } catch (...) { return FWire{Wire{10+stage},{}}; }
}

int main(int argc,char** argv) {
    if (argc<2) return 2;
    return run_cases_f(argv[1],[&](const std::string& comp,Reader& r,FReader& f)->FWire { if (comp=="c04") return c04(r,f); return FWire{Wire{-2},{}}; });
}
