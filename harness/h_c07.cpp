// C07 / C19 harness: matrix/vector file codecs and the mesh readers of the current /repo tree.
// Doubles travel as their 64-bit patterns (signed long long on the wire); files as byte lists.
#include <vector.h>
#include <matrix.h>
#include <symmatrix.h>
#include <sparse_matrix.h>
#include <MathsIO.H>
#include <matio.h>
#include <OMMathExceptions.H>
#include <mesh.h>
#include <MeshIO.h>
#include <geometry.h>
#define private public
#include <sensors.h>
#undef private
#include "wire.h"
#include <sys/resource.h>
#include <sys/stat.h>
#include <sys/wait.h>
#include <unistd.h>
#include <signal.h>
#include <typeinfo>

using namespace OpenMEEG;

static inline ll d2w(double d) { ll w; memcpy(&w,&d,8); return w; }
static inline double w2d(ll w) { double d; memcpy(&d,&w,8); return d; }

enum { K_VEC=0, K_FULL=1, K_SYM=2, K_SPARSE=3 };
static const char* SUFFIX[] = { "bin", "txt", "tex", "mat", "dat", "" };

// error classes shared with the model (coq/Maths/IOErr.v)
enum { E_ASSERT=1, E_OTHER=3, E_UNKNOWN=4,
       E_OPEN=10, E_CONTENT=11, E_NOSUFFIX=12, E_HEADER=13, E_IDENT=14, E_STORAGE=15, E_DATA=16, E_VECTOR=17,
       E_SYMM=18, E_NOIO=19, E_MATIO=20, E_FORMAT=21, E_SUFFIX=22, E_UNEXPECTED=23, E_MATHS=29,
       E_BADALLOC=30, E_LENGTH=31, E_OUTOFRANGE=32, E_OMEXC=40,
       C_CRASH=90, C_TIMEOUT=91 };

static ll classify_maths(const maths::Exception& e) {
    if (dynamic_cast<const maths::BadFileOpening*>(&e)) return E_OPEN;
    if (dynamic_cast<const maths::BadContent*>(&e)) return E_CONTENT;
    if (dynamic_cast<const maths::NoSuffix*>(&e)) return E_NOSUFFIX;
    if (dynamic_cast<const maths::BadHeader*>(&e)) return E_HEADER;
    if (dynamic_cast<const maths::ImpossibleObjectIdentification*>(&e)) return E_IDENT;
    if (dynamic_cast<const maths::BadStorageType*>(&e)) return E_STORAGE;
    if (dynamic_cast<const maths::BadData*>(&e)) return E_DATA;
    if (dynamic_cast<const maths::BadVector*>(&e)) return E_VECTOR;
    if (dynamic_cast<const maths::BadSymmMatrix*>(&e)) return E_SYMM;
    if (dynamic_cast<const maths::NoIO*>(&e)) return E_NOIO;
    if (dynamic_cast<const maths::MatioError*>(&e)) return E_MATIO;
    if (dynamic_cast<const maths::UnknownFileFormat*>(&e)) return E_FORMAT;
    if (dynamic_cast<const maths::UnknownFileSuffix*>(&e)) return E_SUFFIX;
    if (dynamic_cast<const maths::UnexpectedException*>(&e)) return E_UNEXPECTED;
    return E_MATHS;
}

template <typename F> static ll guarded_code(F f) {
    try { f(); return 0; }
    catch (maths::Exception& e) { return classify_maths(e); }
    catch (std::invalid_argument&) { return E_ASSERT; }
    catch (std::bad_alloc&) { return E_BADALLOC; }
    catch (std::length_error&) { return E_LENGTH; }
    catch (std::out_of_range&) { return E_OUTOFRANGE; }
    catch (OpenMEEG::Exception&) { return E_OMEXC; }
    catch (std::exception&) { return E_OTHER; }
    catch (...) { return E_UNKNOWN; }
}

// ---- objects on the wire ----
struct Obj { int kind; Vector v; Matrix m; SymMatrix s; SparseMatrix sp; };

static void getObj(Reader& r, Obj& o) {
    o.kind = (int)r.n();
    switch (o.kind) {
    case K_VEC: { size_t n=r.n(); o.v = Vector(n); for (size_t k=0;k<n;++k) o.v(k)=w2d(r.z()); break; }
    case K_FULL: { size_t nl=r.n(), nc=r.n(); o.m = Matrix(nl,nc); for (size_t k=0;k<nl*nc;++k) o.m.data()[k]=w2d(r.z()); break; }
    case K_SYM: { size_t n=r.n(); o.s = SymMatrix(n); for (size_t k=0;k<n*(n+1)/2;++k) o.s.data()[k]=w2d(r.z()); break; }
    case K_SPARSE: { size_t nl=r.n(), nc=r.n(), nnz=r.n(); o.sp = SparseMatrix(nl,nc);
                     for (size_t k=0;k<nnz;++k) { size_t i=r.n(), j=r.n(); ll w=r.z(); if (i>=nl||j>=nc) throw Reader::Malformed(); o.sp(i,j)=w2d(w); } break; }
    default: throw Reader::Malformed();
    }
}
static void saveObj(const Obj& o, const char* path) {
    switch (o.kind) {
    case K_VEC: o.v.save(path); break;
    case K_FULL: o.m.save(path); break;
    case K_SYM: o.s.save(path); break;
    case K_SPARSE: o.sp.save(path); break;
    }
}
static const size_t MAXOUT = 200000;
static void putObj(Wire& out, int kind, const Obj& o) {
    out.push_back(kind);
    switch (kind) {
    case K_VEC: { out.push_back(o.v.nlin()); size_t n=o.v.nlin(); if (n>MAXOUT) { out.push_back(-7); break; } for (size_t k=0;k<n;++k) out.push_back(d2w(o.v(k))); break; }
    case K_FULL: { out.push_back(o.m.nlin()); out.push_back(o.m.ncol()); size_t n=(size_t)o.m.nlin()*o.m.ncol(); if (n>MAXOUT) { out.push_back(-7); break; }
                   for (size_t k=0;k<n;++k) out.push_back(d2w(o.m.data()[k])); break; }
    case K_SYM: { out.push_back(o.s.nlin()); size_t n=(size_t)o.s.nlin()*((size_t)o.s.nlin()+1)/2; if (n>MAXOUT) { out.push_back(-7); break; }
                  for (size_t k=0;k<n;++k) out.push_back(d2w(o.s.data()[k])); break; }
    case K_SPARSE: { out.push_back(o.sp.nlin()); out.push_back(o.sp.ncol()); out.push_back(o.sp.size());
                     for (auto it=o.sp.begin(); it!=o.sp.end(); ++it) { out.push_back(it->first.first); out.push_back(it->first.second); out.push_back(d2w(it->second)); } break; }
    }
}
static ll loadObj(int kind, Obj& o, const char* path) {
    return guarded_code([&]{
        switch (kind) {
        case K_VEC: o.v.load(path); break;
        case K_FULL: o.m.load(path); break;
        case K_SYM: o.s.load(path); break;
        case K_SPARSE: o.sp.load(path); break;
        }
    });
}
static void loadOutcome(Wire& out, int kind, const char* path) {
    Obj o; o.kind = kind;
    ll st = loadObj(kind,o,path);
    out.push_back(st);
    if (st==0) putObj(out,kind,o);
}

static std::vector<unsigned char> slurp(const char* path) {
    std::vector<unsigned char> b; FILE* f=fopen(path,"rb"); if (!f) return b;
    unsigned char buf[65536]; size_t n; while ((n=fread(buf,1,sizeof buf,f))>0) b.insert(b.end(),buf,buf+n); fclose(f); return b;
}
static void spit(const char* path, Reader& r) {
    size_t n=r.n(); std::vector<unsigned char> b(n); for (size_t k=0;k<n;++k) b[k]=(unsigned char)r.n();
    FILE* f=fopen(path,"wb"); if (!f) throw std::runtime_error("cannot write case file"); if (n) fwrite(b.data(),1,n,f); fclose(f);
}
static std::string fname(const char* stem, int fmt) { std::string s(stem); if (SUFFIX[fmt][0]) { s += "."; s += SUFFIX[fmt]; } return s; }

// run f in a child process under an address-space limit and an alarm; the child writes its result line to a pipe
static Wire in_child(const std::function<Wire()>& f, unsigned seconds=5, size_t as_mb=2048) {
    int fd[2]; if (pipe(fd)!=0) return Wire{E_UNKNOWN};
    fflush(stdout); fflush(stderr);
    pid_t pid = fork();
    if (pid==0) {
        close(fd[0]);
        struct rlimit rl; rl.rlim_cur = rl.rlim_max = (rlim_t)as_mb<<20; setrlimit(RLIMIT_AS,&rl);
        struct rlimit rc; rc.rlim_cur = rc.rlim_max = 0; setrlimit(RLIMIT_CORE,&rc);
        signal(SIGALRM,SIG_DFL); alarm(seconds);
        Wire out;
        try { out = f(); } catch (std::bad_alloc&) { out = Wire{E_BADALLOC}; } catch (...) { out = Wire{E_UNKNOWN}; }
        std::string s; for (size_t k=0;k<out.size();++k) { if (k) s+=' '; s+=std::to_string(out[k]); }
        size_t off=0; while (off<s.size()) { ssize_t w=write(fd[1],s.data()+off,s.size()-off); if (w<=0) break; off+=w; }
        close(fd[1]);
        _exit(0);
    }
    close(fd[1]);
    std::string s; char buf[65536]; ssize_t n;
    while ((n=read(fd[0],buf,sizeof buf))>0) s.append(buf,n);
    close(fd[0]);
    int status=0; waitpid(pid,&status,0);
    if (WIFSIGNALED(status)) return Wire{ WTERMSIG(status)==SIGALRM ? C_TIMEOUT : C_CRASH, WTERMSIG(status) };
    if (!WIFEXITED(status) || WEXITSTATUS(status)!=0) return Wire{C_CRASH,-(ll)WEXITSTATUS(status)};
    Wire out; std::istringstream ls(s); ll v; while (ls>>v) out.push_back(v);
    return out;
}

// ---- mesh readers (C19) ----
static const char* MSUFFIX[] = { "tri", "off", "bnd", "mesh", "vtk", "gii" };
static Wire meshOutcome(const char* path) {
    // the reader alone (load_points + load_triangles), then the class of the complete Mesh::load
    Wire out;
    {
        Mesh mesh;
        MeshIO* io = nullptr;
        ll st = guarded_code([&]{ io = MeshIO::create(path); io->open(std::ios_base::in); io->load_points(mesh.geometry()); io->load_triangles(mesh); });
        out.push_back(st);
        if (st==0) {
            if (mesh.vertices().size()>MAXOUT || mesh.triangles().size()>MAXOUT) { out.push_back(-7); }
            else {
                out.push_back(mesh.vertices().size());
                for (const auto* vp : mesh.vertices()) for (int c=0;c<3;++c) out.push_back(d2w((*vp)(c)));
                out.push_back(mesh.triangles().size());
                for (const auto& t : mesh.triangles()) for (int c=0;c<3;++c) {
                    const Vertex* p = &t.vertex(c); ll idx=-1; ll k=0;
                    for (const auto* vp : mesh.vertices()) { if (vp==p) { idx=k; break; } ++k; }
                    out.push_back(idx);
                }
            }
        }
        delete io;
    }
    { Mesh mesh; out.push_back(guarded_code([&]{ mesh.load(path,false); })); }
    return out;
}

static Wire c07(Reader& r) {
    ll op=r.z();
    switch (op) {
    case 1: {   // rt: fmt obj targetkind -> [save status, nbytes, bytes..., load outcome]
        int fmt=(int)r.n(); Obj o; getObj(r,o); int tk=(int)r.n();
        std::string p = fname("omfile_rt",fmt); std::remove(p.c_str());
        Wire out; ll st = guarded_code([&]{ saveObj(o,p.c_str()); });
        out.push_back(st);
        if (st!=0) return out;
        if (fmt==3) { out.push_back(0); }           // MATLAB container bytes are not compared
        else { auto b=slurp(p.c_str()); out.push_back(b.size()); for (auto c : b) out.push_back(c); }
        loadOutcome(out,tk,p.c_str());
        return out; }
    case 2: {   // ld: fmt targetkind nbytes bytes... -> load outcome, in a child process
        int fmt=(int)r.n(); int tk=(int)r.n(); std::string p = fname("omfile_ld",fmt); spit(p.c_str(),r);
        return in_child([&]{ Wire out; loadOutcome(out,tk,p.c_str()); return out; }); }
    case 3: {   // order in which the registered formats are tried by auto-detection
        Wire out{0};
        for (auto io : maths::MathsIO::ios()) {
            const std::string& id = io->identity();
            out.push_back(id=="binary" ? 0 : id=="ascii" ? 1 : id=="tex" ? 2 : id=="matlab" ? 3 : 9);
        }
        return out; }
    case 4: {   // rnd6: what "%g" + strtod make of a double (libc; assumed, not modelled)
        size_t n=r.n(); Wire out{0};
        for (size_t k=0;k<n;++k) { char b[64]; snprintf(b,sizeof b,"%g",w2d(r.z())); out.push_back(d2w(strtod(b,nullptr))); }
        return out; }
    case 6: {   // save fmt obj id -> file f<id>.<sfx> in the working directory
        int fmt=(int)r.n(); Obj o; getObj(r,o); ll id=r.z();
        std::string p = fname(("f"+std::to_string(id)).c_str(),fmt); std::remove(p.c_str());
        return Wire{ guarded_code([&]{ saveObj(o,p.c_str()); }) }; }
    case 7: {   // loadfile fmt kind id -> load outcome
        int fmt=(int)r.n(); int tk=(int)r.n(); ll id=r.z();
        std::string p = fname(("f"+std::to_string(id)).c_str(),fmt);
        Wire out; loadOutcome(out,tk,p.c_str()); return out; }
    case 8: {   // rtm: MATLAB round trip in a child (libmatio may abort): obj targetkind -> [save status, load outcome]
        Obj o; getObj(r,o); int tk=(int)r.n();
        return in_child([&]{ std::string p = fname("omfile_rtm",3); std::remove(p.c_str());
            Wire out; ll st = guarded_code([&]{ saveObj(o,p.c_str()); }); out.push_back(st); if (st==0) loadOutcome(out,tk,p.c_str()); return out; },20); }
    case 9: {   // csc: sparse obj -> [save status, nl, nc, nir, ir.., njc, jc.., ndata, data words.., load outcome] (MATLAB file reopened with matio)
        Obj o; getObj(r,o); if (o.kind!=K_SPARSE) throw Reader::Malformed();
        return in_child([&]{ std::string p = fname("omfile_csc",3); std::remove(p.c_str());
            Wire out; ll st = guarded_code([&]{ saveObj(o,p.c_str()); }); out.push_back(st); if (st!=0) return out;
            mat_t* mat = Mat_Open(p.c_str(),MAT_ACC_RDONLY);
            matvar_t* v = mat ? Mat_VarReadNext(mat) : nullptr;
            if (!v || v->class_type!=MAT_C_SPARSE) { out.push_back(-1); return out; }
            mat_sparse_t* sp = static_cast<mat_sparse_t*>(v->data);
            out.push_back(v->dims[0]); out.push_back(v->dims[1]);
            out.push_back(sp->nir); for (size_t k=0;k<(size_t)sp->nir;++k) out.push_back(sp->ir[k]);
            out.push_back(sp->njc); for (size_t k=0;k<(size_t)sp->njc;++k) out.push_back(sp->jc[k]);
            out.push_back(sp->ndata); for (size_t k=0;k<(size_t)sp->ndata;++k) out.push_back(d2w(static_cast<double*>(sp->data)[k]));
            Mat_VarFree(v); Mat_Close(mat);
            loadOutcome(out,K_SPARSE,p.c_str()); return out; },20); }
    case 13: {  // rtu: fmt obj prev(same kind) -> [save status, load outcome] with the file loaded into an object that already holds prev
        int fmt=(int)r.n(); Obj o; getObj(r,o); Obj u; getObj(r,u); if (u.kind!=o.kind) throw Reader::Malformed();
        return in_child([&]{ std::string p = fname("omfile_rtu",fmt); std::remove(p.c_str());
            Wire out; ll st = guarded_code([&]{ saveObj(o,p.c_str()); }); out.push_back(st); if (st!=0) return out;
            ll ls = loadObj(u.kind,u,p.c_str()); out.push_back(ls); if (ls==0) putObj(out,u.kind,u); return out; },20); }
    case 14: {  // matcraft: a MATLAB container written with libmatio directly (possibly inconsistent), then loaded as `kind`
        int variant=(int)r.n(); int kind=(int)r.n();
        std::string p = fname("omfile_craft",3); std::remove(p.c_str());
        mat_t* mat = Mat_CreateVer(p.c_str(),NULL,MAT_FT_MAT73);
        if (!mat) return Wire{E_OPEN};
        if (variant==0) {        // symmatrix struct {size, data}: announced order, k values
            size_t n=r.n(), k=r.n(); std::vector<double> d(k ? k : 1); for (size_t t=0;t<k;++t) d[t]=w2d(r.z());
            size_t dims[2] = { k,1 }; size_t dims1[2] = { 1,1 }; size_t size[1] = { n };
            matvar_t* fields[3];
            fields[0] = Mat_VarCreate("size",MAT_C_UINT32,MAT_T_UINT32,2,dims1,size,0);
            fields[1] = Mat_VarCreate("data",MAT_C_DOUBLE,MAT_T_DOUBLE,2,dims,d.data(),0);
            fields[2] = NULL;
            matvar_t* sv = Mat_VarCreate("symmatrix",MAT_C_STRUCT,MAT_T_STRUCT,2,dims1,fields,0);
            Mat_VarWrite(mat,sv,MAT_COMPRESSION_ZLIB); Mat_VarFree(sv);
        } else if (variant==1) { // plain variable: class (0 double, 1 int32), rank, dims, values
            int cls=(int)r.n(); int rank=(int)r.n(); std::vector<size_t> dims(rank); size_t tot=1; for (int t=0;t<rank;++t) { dims[t]=r.n(); tot*=dims[t]; }
            size_t nv=r.n(); std::vector<double> d(std::max(nv,tot)+1,0.0); std::vector<int> di(std::max(nv,tot)+1,0);
            for (size_t t=0;t<nv;++t) { ll w=r.z(); d[t]=w2d(w); di[t]=(int)w; }
            matvar_t* v = cls==0 ? Mat_VarCreate("linop",MAT_C_DOUBLE,MAT_T_DOUBLE,rank,dims.data(),d.data(),0)
                                 : Mat_VarCreate("linop",MAT_C_INT32,MAT_T_INT32,rank,dims.data(),di.data(),0);
            if (v) { Mat_VarWrite(mat,v,MAT_COMPRESSION_ZLIB); Mat_VarFree(v); }
        } else {                 // sparse: nl nc nzmax nir ir.. njc jc.. ndata values..
            size_t nl=r.n(), nc=r.n(); size_t nzmax=r.n();
            size_t nir=r.n(); std::vector<mat_uint32_t> ir(nir+1); for (size_t t=0;t<nir;++t) ir[t]=(mat_uint32_t)r.n();
            size_t njc=r.n(); std::vector<mat_uint32_t> jc(njc+1); for (size_t t=0;t<njc;++t) jc[t]=(mat_uint32_t)r.n();
            size_t nd=r.n(); std::vector<double> d(nd+1); for (size_t t=0;t<nd;++t) d[t]=w2d(r.z());
            size_t dims[2] = { nl,nc };
            mat_sparse_t sp; sp.nzmax=(mat_uint32_t)nzmax; sp.ir=ir.data(); sp.nir=(mat_uint32_t)nir; sp.jc=jc.data(); sp.njc=(mat_uint32_t)njc; sp.ndata=(mat_uint32_t)nd; sp.data=d.data();
            matvar_t* v = Mat_VarCreate("matrix",MAT_C_SPARSE,MAT_T_DOUBLE,2,dims,&sp,MAT_F_DONT_COPY_DATA);
            if (v) { Mat_VarWrite(mat,v,MAT_COMPRESSION_ZLIB); Mat_VarFree(v); }
        }
        Mat_Close(mat);
        return in_child([&]{ Wire out; loadOutcome(out,kind,p.c_str()); return out; },10); }
    case 15: {  // info: fmt id -> what maths::info says of file f<id>.<sfx>: [status, storage, dimension, nlin, ncol]
        int fmt=(int)r.n(); ll id=r.z();
        std::string p = fname(("f"+std::to_string(id)).c_str(),fmt);
        Wire out; LinOpInfo li; bool ok=false;
        ll st = guarded_code([&]{ li = maths::info(p.c_str()); ok=true; });
        out.push_back(st); if (ok) { out.push_back((ll)li.storageType()); out.push_back(li.dimension()); out.push_back(li.nlin()); out.push_back(li.ncol()); }
        return out; }
    case 16: {  // rtp: like rt, through a path with dots before the extension: style fmt obj targetkind
        int style=(int)r.n(); int fmt=(int)r.n(); Obj o; getObj(r,o); int tk=(int)r.n();
        mkdir("omdir.v2",0777);
        static const char* STEM[] = { "./omfile_p", "omdir.v2/m", "omfile.v1", "omdir.v2/../omfile_q", "omdir.v2/m.x.y" };
        std::string p = fname(STEM[style],fmt); std::remove(p.c_str());
        Wire out; ll st = guarded_code([&]{ saveObj(o,p.c_str()); });
        out.push_back(st);
        if (st!=0) return out;
        if (fmt==3) { out.push_back(0); }
        else { auto b=slurp(p.c_str()); out.push_back(b.size()); for (auto c : b) out.push_back(c); }
        loadOutcome(out,tk,p.c_str());
        return out; }
    case 10: {  // mesh: mfmt nbytes bytes... -> mesh load outcome, in a child process
        int mf=(int)r.n(); std::string p = std::string("omfile_m.")+MSUFFIX[mf]; spit(p.c_str(),r);
        return in_child([&]{ return meshOutcome(p.c_str()); }); }
    case 12: {  // geo: which(0 geom,1 cond,2 sensors,3 dipoles) nbytes bytes... -> outcome class, in a child (files of Head1 are in cwd)
        int which=(int)r.n();
        const char* names[] = { "m.geom", "m.cond", "m.squids", "m.dip" };
        spit(names[which],r);
        return in_child([&]{ Wire out;
            ll st = guarded_code([&]{
                switch (which) {
                case 0: { Geometry g; g.load(std::string("m.geom"),std::string("Head1.cond")); out.push_back(g.meshes().size()); out.push_back(g.domains().size()); break; }
                case 1: { Geometry g; g.load(std::string("Head1.geom"),std::string("m.cond")); out.push_back(g.domains().size()); break; }
                case 2: { Sensors sn("m.squids"); size_t np=sn.getNumberOfPositions(); out.push_back(np); out.push_back(sn.getNumberOfSensors());
                          // per position: the sensor it belongs to and its three coordinates
                          for (size_t i=0;i<np && i<2000;++i) { out.push_back(sn.m_pointSensorIdx[i]); for (unsigned c=0;c<3;++c) out.push_back(d2w(sn.getPositions()(i,c))); }
                          break; }
                case 3: { Matrix d("m.dip"); out.push_back(d.nlin()); out.push_back(d.ncol()); break; }
                }
            });
            out.insert(out.begin(),st); if (st!=0) out.resize(1); return out; }); }
    }
    throw Reader::Malformed();
}

int main(int argc,char** argv) {
    if (argc<2) return 2;
    return run_cases(argv[1],[](const std::string& comp,Reader& r)->Wire {
        if (comp=="c07" || comp=="c19") return c07(r);
        throw Reader::Malformed();
    });
}
