// C16 harness: the integration kernels of the current /repo tree (float wire), plus a brute-force reference
// quadrature (tensor Gauss-Legendre through the Duffy map on a uniform 4^k subdivision; nodes computed here,
// nothing shared with the library's tables) for the closed forms that are not proved.
#include "wire.h"
#include <map>
#include <set>
#include <stack>
#include <memory>
#include <list>
#include <algorithm>
#include <numeric>
#include <limits>
#include <iomanip>
#define private public
#define protected public
#include <vect3.h>
#include <vertex.h>
#include <triangle.h>
#include <mesh.h>
#include <geometry.h>
#include <dipole.h>
#include <analytics.h>
#include <integrator.h>
#include <operators.h>
#undef private
#undef protected

using namespace OpenMEEG;

static Vect3 getV(FReader& f) { double a=f.x(), b=f.x(), c=f.x(); return Vect3(a,b,c); }
static void putV(FWire& o,const Vect3& v) { o.f.push_back(v.x()); o.f.push_back(v.y()); o.f.push_back(v.z()); }

// A mesh built the way the library builds one: vertices in the geometry, triangles by index,
// adjacency (vertex -> triangles, in triangle order) and Mesh::update(false) for areas / normals.
struct TMesh {
    Mesh m;
    TMesh(const std::vector<Vect3>& vs,const std::vector<TriangleIndices>& ts): m() {
        m.geometry().vertices().reserve(vs.size());
        for (size_t i=0;i<vs.size();++i) m.geometry().vertices().push_back(Vertex(vs[i],(unsigned)i));
        m.triangles().reserve(ts.size());
        for (const auto& t : ts) m.add_triangle(t);
        for (size_t i=0;i<vs.size();++i) m.vertices().push_back(&m.geometry().vertices()[i]);
        m.make_adjacencies();
        m.update(false);
    }
    const Triangle& T(size_t i=0) const { return m.triangles()[i]; }
    const Vertex& V(size_t i) const { return m.geometry().vertices()[i]; }
};
static TMesh one(const Vect3& a,const Vect3& b,const Vect3& c) { return TMesh({a,b,c},{TriangleIndices(0,1,2)}); }

static double pw(double x,ll a) { double r=1.0; for (ll i=0;i<a;++i) r=r*x; return r; }

// ------------------------------------------------------------------ brute-force reference quadrature
struct GL { std::vector<double> x,w; };
static GL gauss_legendre(int n) {           // nodes/weights on [0,1], Newton on P_n
    GL g; g.x.resize(n); g.w.resize(n);
    for (int i=0;i<n;++i) {
        double z=cos(M_PI*(i+0.75)/(n+0.5)), pp=0;
        for (int it=0;it<100;++it) {
            double p1=1.0,p2=0.0;
            for (int j=0;j<n;++j) { double p3=p2; p2=p1; p1=((2.0*j+1.0)*z*p2-j*p3)/(j+1.0); }
            pp=n*(z*p1-p2)/(z*z-1.0);
            double dz=p1/pp; z-=dz; if (fabs(dz)<1e-16) break;
        }
        g.x[i]=0.5*(1.0+z); g.w[i]=1.0/((1.0-z*z)*pp*pp);
    }
    return g;
}
static const GL& gl() { static GL g=gauss_legendre(10); return g; }

// integral over triangle (a,b,c) of f(y) dy (true surface measure), K = number of values of f
template <int K,typename Fn> static void tri_gl(const Fn& f,const Vect3& a,const Vect3& b,const Vect3& c,double* acc) {
    const GL& g=gl(); const int n=(int)g.x.size();
    const double area2=crossprod(b-a,c-a).norm();
    for (int i=0;i<n;++i) for (int j=0;j<n;++j) {
        const double u=g.x[i], v=g.x[j]*(1.0-u), w=g.w[i]*g.w[j]*(1.0-u)*area2;
        const Vect3 y=a+u*(b-a)+v*(c-a);
        double val[K]; f(y,val);
        for (int k=0;k<K;++k) acc[k]+=w*val[k];
    }
}
template <int K,typename Fn> static void tri_ref(const Fn& f,const Vect3& a,const Vect3& b,const Vect3& c,int depth,double* acc) {
    if (depth==0) { tri_gl<K>(f,a,b,c,acc); return; }
    const Vect3 ab=0.5*(a+b), bc=0.5*(b+c), ca=0.5*(c+a);
    tri_ref<K>(f,a,ab,ca,depth-1,acc); tri_ref<K>(f,ab,b,bc,depth-1,acc);
    tri_ref<K>(f,ca,bc,c,depth-1,acc); tri_ref<K>(f,ab,bc,ca,depth-1,acc);
}
// value at depth d+1 and self-estimated error |I_{d+1}-I_d| (max over components)
template <int K,typename Fn> static double reference(const Fn& f,const Vect3& a,const Vect3& b,const Vect3& c,int d,double* out) {
    double lo[K]; for (int k=0;k<K;++k) { lo[k]=0; out[k]=0; }
    tri_ref<K>(f,a,b,c,d,lo); tri_ref<K>(f,a,b,c,d+1,out);
    double e=0; for (int k=0;k<K;++k) e=std::max(e,fabs(lo[k]-out[k]));
    return e;
}

// the polynomial integrand of op 9 kind 0
struct Poly {
    std::vector<double> c; std::vector<ll> e;
    double operator()(const Vect3& v) const {
        double s=0.0;
        for (size_t k=0;k<c.size();++k) s=s+c[k]*pw(v.x(),e[3*k])*pw(v.y(),e[3*k+1])*pw(v.z(),e[3*k+2]);
        return s;
    }
};

static FWire c16(Reader& r,FReader& f) {
    ll op=r.z();
    FWire o; o.z.push_back(ST_OK);
    switch (op) {
    case 1: { Vect3 x=getV(f),a=getV(f),b=getV(f),c=getV(f); o.f.push_back(x.solid_angle(a,b,c)); return o; }
    case 2: { Vect3 p0=getV(f),p1=getV(f),x=getV(f);
              const Vect3 p0x=p0-x, p1x=p1-x, p1p0=p1-p0;
              const double n0=p0x.norm(), n1=p1x.norm(), n10=p1p0.norm();
              o.f.push_back(integral_simplified_green(p0x,n0,p1x,n1,p1p0,n10));
              o.f.push_back((n0*n10-dotprod(p0x,p1p0))/(n1*n10-dotprod(p1x,p1p0)));
              return o; }
    case 3: { Vect3 a=getV(f),b=getV(f),c=getV(f),x=getV(f); const analyticS an(a,b,c); o.f.push_back(an.f(x)); return o; }
    case 4: { Vect3 a=getV(f),b=getV(f),c=getV(f),x=getV(f); TMesh tm=one(a,b,c); const analyticS an(tm.T()); o.f.push_back(an.f(x)); return o; }
    case 5: { Vect3 a=getV(f),b=getV(f),c=getV(f),x=getV(f); TMesh tm=one(a,b,c); const analyticD3 an(tm.T()); putV(o,an.f(x)); return o; }
    case 6: { Vect3 r0=getV(f),q=getV(f),a=getV(f),b=getV(f),c=getV(f),x=getV(f); TMesh tm=one(a,b,c); const Dipole dip(r0,q);
              const analyticDipPotDer an(dip,tm.T()); putV(o,an.f(x)); return o; }
    case 7: { Vect3 r0=getV(f),q=getV(f),x=getV(f); const Dipole dip(r0,q); o.f.push_back(dip.potential(x)); return o; }
    case 8: case 22: case 25: {
        size_t n=r.n(); std::vector<ll> rot(n); for (auto& t : rot) t=r.z();
        Vect3 x=getV(f), v=getV(f);
        std::vector<Vect3> vs{v}; std::vector<TriangleIndices> ts;
        for (size_t k=0;k<n;++k) {
            Vect3 a=getV(f), b=getV(f);
            unsigned ia=vs.size(); vs.push_back(a); unsigned ib=vs.size(); vs.push_back(b);
            const ll rk=rot[k]%3;
            ts.push_back(rk==0 ? TriangleIndices(0,ia,ib) : rk==1 ? TriangleIndices(ib,0,ia) : TriangleIndices(ia,ib,0));
        }
        TMesh tm(vs,ts);
        // codes 3..5: the triangle is flipped AFTER the last Mesh::update (Triangle::change_orientation, as Mesh::change_orientation /
        // correct_global_orientation do): cached normal and area are those of the old vertex order
        for (size_t k=0;k<n;++k) if (rot[k]>=3) tm.m.triangles()[k].change_orientation();
        putV(o,Details::operatorFerguson(x,tm.V(0),tm.m));
        if (op==22) {       // reference: sum over the fan of  int_T  grad(phi_V)(y) x n / |x-y| dy
            double tot[3]={0,0,0}; double err=0;
            for (size_t k=0;k<n;++k) {
                const Vect3 A=vs[1+2*k], B=vs[2+2*k];
                // gradient of the hat function of V on (V,A,B): along the height from the edge AB to V, length 1/height
                const Vect3 e=B-A; const Vect3 fA=v-A; const Vect3 h=fA-(dotprod(fA,e)/e.norm2())*e;   // height vector
                const Vect3 grad=h/h.norm2();
                const Triangle& Tk=tm.m.triangles()[k];
                Vect3 nn=crossprod(Tk.vertex(1)-Tk.vertex(0),Tk.vertex(2)-Tk.vertex(0)); nn=nn/nn.norm();   // current stored order
                const Vect3 nxg=crossprod(grad,nn);   // grad(phi_V) x n
                auto fn=[&](const Vect3& y,double* val){ const double rr=(x-y).norm(); val[0]=nxg.x()/rr; val[1]=nxg.y()/rr; val[2]=nxg.z()/rr; };
                double out[3]; err+=reference<3>(fn,v,A,B,3,out);
                for (int i=0;i<3;++i) tot[i]+=out[i];
            }
            for (int i=0;i<3;++i) o.f.push_back(tot[i]);
            o.f.push_back(err);
        }
        if (op==25) {       // reference from the DEFINITION (Biot-Savart surface term of the hat function of V, before the
                            // integration by parts): sum over the CLOSED fan of int_T phi_V(y) n_T x (x-y)/|x-y|^3 dS(y),
                            // n_T by the right-hand rule on the stored vertex order
            double tot[3]={0,0,0}; double err=0;
            for (size_t k=0;k<n;++k) {
                const Vect3 A=vs[1+2*k], B=vs[2+2*k];
                const Triangle& Tk=tm.m.triangles()[k];
                const Vect3 nn0=crossprod(Tk.vertex(1)-Tk.vertex(0),Tk.vertex(2)-Tk.vertex(0)); const double A2=nn0.norm(); const Vect3 nn=nn0/A2;
                auto fn=[&](const Vect3& y,double* val){
                    const double phi=crossprod(A-y,B-y).norm()/A2;
                    const Vect3 d=x-y; const double rr=d.norm(); const Vect3 w=crossprod(nn,d)*(phi/(rr*rr*rr));
                    val[0]=w.x(); val[1]=w.y(); val[2]=w.z(); };
                double out[3]; err+=reference<3>(fn,v,A,B,3,out);
                for (int i=0;i<3;++i) tot[i]+=out[i];
            }
            for (int i=0;i<3;++i) o.f.push_back(tot[i]);
            o.f.push_back(err);
        }
        return o; }
    case 9: {
        ll ord=r.z(); ll depth=r.z(); ll kind=r.z();
        std::vector<ll> rest; while (!r.done()) rest.push_back(r.z());
        double tol=f.x(); Vect3 t0=getV(f),t1=getV(f),t2=getV(f);
        TMesh tm=one(t0,t1,t2);
        const Integrator I((unsigned)ord,(unsigned)depth,tol);
        const Integrator I0((unsigned)ord,0u,tol);
        if (kind==0) {
            Poly p; size_t n=(size_t)rest.at(0); for (size_t k=0;k<n;++k) p.c.push_back(f.x());
            p.e.assign(rest.begin()+1,rest.end()); if (p.e.size()!=3*n) throw Reader::Malformed();
            const auto fn=[&](const Vect3& v){ return p(v); };
            o.f.push_back(I.integrate(fn,tm.T()));
        } else if (kind==1) {
            Vect3 r0=getV(f),q=getV(f); const Dipole dip(r0,q);
            const auto fn=[&](const Vect3& v){ return dip.potential(v); };
            o.f.push_back(I.integrate(fn,tm.T()));
        } else if (kind==2) {
            Vect3 a=getV(f),b=getV(f),c=getV(f); TMesh t2m=one(a,b,c); const analyticS an(t2m.T());
            const auto fn=[&](const Vect3& v){ return an.f(v); };
            o.f.push_back(I.integrate(fn,tm.T()));
        } else if (kind==3) {
            Vect3 a=getV(f),b=getV(f),c=getV(f); TMesh t2m=one(a,b,c); const analyticD3 an(t2m.T());
            const auto fn=[&](const Vect3& v){ return an.f(v); };
            const Vect3 res=I.integrate(fn,tm.T()); putV(o,res);
        } else {
            Vect3 r0=getV(f),q=getV(f); const Dipole dip(r0,q); const analyticDipPotDer an(dip,tm.T());
            const auto fn=[&](const Vect3& v){ return an.f(v); };
            const Vect3 res=I.integrate(fn,tm.T()); putV(o,res);
        }
        return o; }
    case 13: {   // Integrator built through EVERY constructor overload: 1 (ord) | 2 (ord,tol) | 3 (ord,levels) | 4 (ord,levels,tol)
        ll ctor=r.z(), ord=r.z(), depth=r.z(), kind=r.z();
        double tol=f.x(); Vect3 t0=getV(f),t1=getV(f),t2=getV(f); Vect3 r0=getV(f),q=getV(f);
        TMesh tm=one(t0,t1,t2); const Dipole dip(r0,q);
        const Integrator I = ctor==1 ? Integrator((unsigned)ord) : ctor==2 ? Integrator((unsigned)ord,tol)
                           : ctor==3 ? Integrator((unsigned)ord,(unsigned)depth) : Integrator((unsigned)ord,(unsigned)depth,tol);
        // the documented meaning of the short forms, spelled out with the three-argument constructor
        const Integrator J = ctor==1 ? Integrator((unsigned)ord,0u,0.0) : ctor==2 ? Integrator((unsigned)ord,10u,tol)
                           : ctor==3 ? Integrator((unsigned)ord,(unsigned)depth,0.0001) : Integrator((unsigned)ord,(unsigned)depth,tol);
        o.z.push_back((ll)I.order); o.z.push_back((ll)I.max_depth);
        o.f.push_back(I.tolerance);
        if (kind==1) {
            const auto fn=[&](const Vect3& v){ return dip.potential(v); };
            o.f.push_back(I.integrate(fn,tm.T())); o.f.push_back(J.integrate(fn,tm.T()));
        } else {
            const analyticDipPotDer an(dip,tm.T());
            const auto fn=[&](const Vect3& v){ return an.f(v); };
            putV(o,I.integrate(fn,tm.T())); putV(o,J.integrate(fn,tm.T()));
        }
        return o; }
    case 10: {   // the table as the compiler sees it
        size_t ord=r.n(); if (ord>3) throw Reader::Malformed();
        o.z.push_back((ll)Integrator::nbPts[ord]);
        for (unsigned i=0;i<Integrator::nbPts[ord];++i) {
            for (int j=0;j<3;++j) o.f.push_back(Integrator::rules[ord][i].barycentric_coordinates[j]);
            o.f.push_back(Integrator::rules[ord][i].weight);
        }
        return o; }
    case 11: {   // monomial l0^a l1^b l2^c on the unit triangle (0,0,0),(1,0,0),(0,1,0) through Integrator::integrate
        ll ord=r.z(), depth=r.z(), a=r.z(), b=r.z(), c=r.z(); double tol=f.x();
        TMesh tm=one(Vect3(0,0,0),Vect3(1,0,0),Vect3(0,1,0));
        const Integrator I((unsigned)ord,(unsigned)depth,tol);
        const auto fn=[&](const Vect3& v){ return pw(1.0-v.x()-v.y(),a)*pw(v.x(),b)*pw(v.y(),c); };
        o.f.push_back(I.integrate(fn,tm.T()));
        return o; }
    case 12: {   // order actually used by Integrator(ord): safe_order
        ll ord=r.z(); const Integrator I((unsigned)ord); o.z.push_back((ll)I.order); return o; }
    // ---------------- closed form vs brute-force reference (measured, never a proof)
    case 20: {   // analyticS::f(x)  vs  int_T 1/|x-y| dy
        Vect3 a=getV(f),b=getV(f),c=getV(f),x=getV(f); TMesh tm=one(a,b,c); const analyticS an(tm.T());
        auto fn=[&](const Vect3& y,double* val){ val[0]=1.0/(x-y).norm(); };
        double out[1]; double e=reference<1>(fn,a,b,c,3,out);
        o.f.push_back(an.f(x)); o.f.push_back(out[0]); o.f.push_back(e); return o; }
    case 21: {   // analyticD3::f(x)_i  vs  int_T phi_i(y) (y-x).n/|y-x|^3 dy ; solid angle vs the sum
        Vect3 a=getV(f),b=getV(f),c=getV(f),x=getV(f); TMesh tm=one(a,b,c); const analyticD3 an(tm.T());
        const Vect3 nn0=crossprod(b-a,c-a); const Vect3 nn=nn0/nn0.norm(); const double A2=nn0.norm();
        auto fn=[&](const Vect3& y,double* val){
            const Vect3 d=y-x; const double rr=d.norm(); const double k=dotprod(d,nn)/(rr*rr*rr);
            const double l1=crossprod(y-a,c-a).norm()/A2, l2=crossprod(b-a,y-a).norm()/A2, l0=1.0-l1-l2;
            val[0]=l0*k; val[1]=l1*k; val[2]=l2*k; };
        double out[3]; double e=reference<3>(fn,a,b,c,3,out);
        putV(o,an.f(x)); for (int i=0;i<3;++i) o.f.push_back(out[i]); o.f.push_back(e);
        o.f.push_back(x.solid_angle(a,b,c)); return o; }
    case 24: {   // analyticDipPotDer::f(y)_i  vs  -phi_i(y) d/dn [Dipole::potential](y) by central differences
        Vect3 r0=getV(f),q=getV(f),a=getV(f),b=getV(f),c=getV(f),y=getV(f); TMesh tm=one(a,b,c); const Dipole dip(r0,q);
        const analyticDipPotDer an(dip,tm.T()); putV(o,an.f(y));
        const Vect3 nn0=crossprod(b-a,c-a); const double A2=nn0.norm(); const Vect3 nn=nn0/A2;
        const double l1=dotprod(crossprod(y-a,c-a),nn)/A2, l2=dotprod(crossprod(b-a,y-a),nn)/A2, l0=1.0-l1-l2;
        const double h=1e-5*(y-r0).norm();
        const double dn=(dip.potential(y+h*nn)-dip.potential(y-h*nn))/(2*h);
        o.f.push_back(-l0*dn); o.f.push_back(-l1*dn); o.f.push_back(-l2*dn);
        return o; }
    default: throw Reader::Malformed();
    }
}

int main(int argc,char** argv) {
    if (argc<2) return 2;
    return run_cases_f(argv[1],[](const std::string& comp,Reader& r,FReader& f)->FWire {
        if (comp!="c16") throw Reader::Malformed();
        return c16(r,f);
    });
}
