// C12 harness, float wire: Triangle::intersects on generic doubles (near-coplanar pairs), Interface::contains /
// Interface::solid_angle on triangle soups.  "c12f <op> ints | doubles" -> "ints | hex doubles".
#include <vector.h>
#include <matrix.h>
#include <vertex.h>
#include <triangle.h>
#include <mesh.h>
#define private public
#include <interface.h>
#undef private
#include <geometry.h>
#include "wire.h"
#include <memory>
using namespace OpenMEEG;

static Vect3 getV(FReader& f) { double x=f.x(), y=f.x(), z=f.x(); return Vect3(x,y,z); }

static FWire c12f(Reader& r,FReader& f) {
    ll op=r.z();
    if (op==21) {   // six points -> Triangle::intersects both ways
        Vertex a(getV(f)), b(getV(f)), c(getV(f)), d(getV(f)), e(getV(f)), g(getV(f));
        Triangle T1(a,b,c), T2(d,e,g);
        return FWire{Wire{ST_OK,T1.intersects(T2)?1:0,T2.intersects(T1)?1:0},{}};
    }
    if (op==30) {   // soup interface: nv, then per mesh (orientation sign, nt, triples); floats: p, vertices
        Vect3 p=getV(f);
        size_t nv=r.n(); std::vector<Vertex> V; V.reserve(nv);
        for (size_t k=0;k<nv;++k) V.push_back(Vertex(getV(f),(unsigned)k));
        size_t nm=r.n(); std::vector<std::unique_ptr<Mesh>> M; Interface I("I");
        for (size_t m=0;m<nm;++m) {
            ll sg=r.z(); size_t nt=r.n(); M.emplace_back(new Mesh());
            for (size_t t=0;t<nt;++t) { size_t x=r.n(), y=r.n(), z=r.n(); if (x>=nv||y>=nv||z>=nv) throw Reader::Malformed(); M.back()->triangles().push_back(Triangle(&V[x],&V[y],&V[z],(unsigned)t)); }
            I.oriented_meshes().push_back(OrientedMesh(*M.back(),sg>0?OrientedMesh::Normal:OrientedMesh::Opposite));
        }
        const double sa=I.solid_angle(p);
        return FWire{Wire{ST_OK,I.contains(p)?1:0},{sa}};
    }
    throw Reader::Malformed();
}
int main(int argc,char** argv) {
    if (argc<2) return 2;
    return run_cases_f(argv[1],[](const std::string& comp,Reader& r,FReader& f) -> FWire {
        if (comp=="c12f") return c12f(r,f);
        throw Reader::Malformed();
    });
}
