// C18 harness: misuse (accessors, guards), absent names, unopenable files, write faults - on the current /repo tree.
#include <vector.h>
#include <matrix.h>
#include <symmatrix.h>
#include <sparse_matrix.h>
#include <fast_sparse_matrix.h>
#include <geometry.h>
#include <mesh.h>
#include <MeshIO.h>
#include <GeometryIO.h>
#include <OMExceptions.H>
#include <sensors.h>
#include <assemble.h>
#include <sys/resource.h>
#include <sys/stat.h>
#include <signal.h>
#include <unistd.h>
#include "wire.h"
#include <new>

using namespace OpenMEEG;
typedef unsigned U;

extern "C" int xerbla_(char*,int*,int) { return 0; }

// Every new[] block carries its size and a 256-byte tail canary: an element access beyond the real storage of a
// vector/matrix (up to 32 cells) lands in the canary and is detected without a sanitizer.
static const size_t OM_HDR=16, OM_TAIL=256; static const unsigned char OM_CAN=0xA5;
void* operator new[](size_t n) {
    unsigned char* p=(unsigned char*)malloc(OM_HDR+n+OM_TAIL); if (!p) throw std::bad_alloc();
    *(size_t*)p=n; memset(p+8,OM_CAN,8); memset(p+OM_HDR,0xFF,n); memset(p+OM_HDR+n,OM_CAN,OM_TAIL); return p+OM_HDR;
}
void operator delete[](void* q) noexcept { if (q) free((unsigned char*)q-OM_HDR); }
void operator delete[](void* q,size_t) noexcept { if (q) free((unsigned char*)q-OM_HDR); }
static size_t block_bytes(const void* q) { return q ? *(const size_t*)((const unsigned char*)q-OM_HDR) : 0; }
static bool canary_ok(const void* q) {
    if (!q) return true; const unsigned char* p=(const unsigned char*)q-OM_HDR; size_t n=*(const size_t*)p;
    for (int i=8;i<16;++i) if (p[i]!=OM_CAN) return false;
    for (size_t i=0;i<OM_TAIL;++i) if (p[OM_HDR+n+i]!=OM_CAN) return false;
    return true;
}

static U getU(Reader& r) { ll v=r.z(); if (v<0 || v>4294967295LL) throw Reader::Malformed(); return (U)v; }
static std::vector<std::string> split_env(const char* name) {
    std::vector<std::string> out; const char* e=getenv(name); if (!e) return out;
    std::string s(e),cur; for (char c:s) { if (c=='\x1f') { out.push_back(cur); cur.clear(); } else cur+=c; } out.push_back(cur); return out;
}

// outcome classes: 0 ok, 1 std::invalid_argument (om_assert), 2 OpenMEEG / maths exception, 3 other std::exception, 7 bad_alloc / length_error
template <typename F> static Wire guarded(F f) {
    try { return f(); }
    catch (std::invalid_argument&) { return Wire{1}; }
    catch (std::bad_alloc&) { return Wire{7}; }
    catch (std::length_error&) { return Wire{7}; }
    catch (maths::Exception&) { return Wire{2}; }
    catch (OpenMEEG::Exception&) { return Wire{2}; }
    catch (std::exception&) { return Wire{3}; }
    catch (...) { return Wire{3}; }
}

// data()[k]=k : a read returns the slot it came from
static Vector vecK(U n) { Vector v(n); for (size_t k=0;k<v.size();++k) v.data()[k]=(double)k; return v; }
static Matrix matK(U n,U m) { Matrix M(n,m); for (size_t k=0;k<M.size();++k) M.data()[k]=(double)k; return M; }
// sparse matrix with an entry in EVERY row and column (so that an offending column always holds a stored entry)
static SparseMatrix spK(U n,U m) { SparseMatrix S(n,m); for (U i=0;i<n;++i) for (U j=0;j<m;++j) S(i,j)=1.0+i+10.0*j; return S; }
static SymMatrix symK(U n) { SymMatrix S(n); for (size_t k=0;k<S.size();++k) S.data()[k]=(double)k; return S; }
template <typename T> static ll slot_of_ref(T& obj,double& ref) { return (ll)(&ref-obj.data()); }

// [id nlin ncol args...] -> [1 slot] no throw ; [0 -1] threw invalid_argument ; [7] allocation refused
static Wire access(Reader& r) {
    ll id=r.z(); U n=getU(r), c=getU(r);
    auto ok=[](ll slot){ return Wire{1,slot}; };
    return guarded([&]()->Wire {
        try {
        switch (id) {
        case 1: { const Vector v=vecK(n); U i=getU(r); return ok((ll)v(i)); }
        case 2: { Vector v=vecK(n); U i=getU(r); return ok(slot_of_ref(v,v(i))); }
        case 3: { const Matrix M=matK(n,c); U i=getU(r), j=getU(r); return ok((ll)M(i,j)); }
        case 4: { Matrix M=matK(n,c); U i=getU(r), j=getU(r); return ok(slot_of_ref(M,M(i,j))); }
        case 5: { const SymMatrix S=symK(n); U i=getU(r), j=getU(r); return ok((ll)S(i,j)); }
        case 6: { SymMatrix S=symK(n); U i=getU(r), j=getU(r); return ok(slot_of_ref(S,S(i,j))); }
        case 7: { const SparseMatrix S(n,c); U i=getU(r), j=getU(r); S(i,j); return ok(-1); }
        case 8: { SparseMatrix S(n,c); U i=getU(r), j=getU(r); S(i,j)=1.0; return ok(-1); }
        case 10:{ Vector v=vecK(n); U a=getU(r), s=getU(r); v.subvect(a,s); return ok(-1); }
        case 11:{ Matrix M=matK(n,c); U a=getU(r),s=getU(r),b=getU(r),t=getU(r); M.submat(a,s,b,t); return ok(-1); }
        case 12:{ Matrix M=matK(n,c); U a=getU(r),b=getU(r),bn=getU(r),bm=getU(r); Matrix B=matK(bn,bm); M.insertmat(a,b,B); return ok(-1); }
        case 13:{ Matrix M=matK(n,c); U j=getU(r); M.getcol(j); return ok(-1); }
        case 14:{ Matrix M=matK(n,c); U i=getU(r); M.getlin(i); return ok(-1); }
        case 15:{ Matrix M=matK(n,c); U j=getU(r), vs=getU(r); M.setcol(j,vecK(vs)); return ok(-1); }
        case 16:{ Matrix M=matK(n,c); U i=getU(r), vs=getU(r); M.setlin(i,vecK(vs)); return ok(-1); }
        case 17:{ SymMatrix S=symK(n); U i=getU(r); S.getlin(i); return ok(-1); }
        case 18:{ SymMatrix S=symK(n); U i=getU(r), vs=getU(r); S.setlin(i,vecK(vs)); return ok(-1); }
        case 19:{ SymMatrix S=symK(n); U a=getU(r),s=getU(r),b=getU(r),t=getU(r); S.submat(a,s,b,t); return ok(-1); }
        case 20:{ SymMatrix S=symK(n); U a=getU(r),b=getU(r); S.submat(a,b); return ok(-1); }
        case 30:{ Matrix A=matK(n,c); U bn=getU(r),bm=getU(r); A*matK(bn,bm); return ok(-1); }
        case 31:{ Matrix A=matK(n,c); U bn=getU(r),bm=getU(r); A.tmult(matK(bn,bm)); return ok(-1); }
        case 32:{ Matrix A=matK(n,c); U bn=getU(r),bm=getU(r); A.multt(matK(bn,bm)); return ok(-1); }
        case 33:{ Matrix A=matK(n,c); U bn=getU(r),bm=getU(r); A.tmultt(matK(bn,bm)); return ok(-1); }
        case 34:{ Matrix A=matK(n,c); U vs=getU(r); A*vecK(vs); return ok(-1); }
        case 35:{ Matrix A=matK(n,c); U vs=getU(r); A.tmult(vecK(vs)); return ok(-1); }
        case 36:{ Matrix A=matK(n,c); U sn=getU(r); A*symK(sn); return ok(-1); }
        case 37:{ Matrix A=matK(n,c); U bn=getU(r),bm=getU(r); A+=matK(bn,bm); return ok(-1); }
        case 38:{ Matrix A=matK(n,c); U bn=getU(r),bm=getU(r); A-=matK(bn,bm); return ok(-1); }
        case 39:{ Matrix A=matK(n,c); U bn=getU(r),bm=getU(r); A.dot(matK(bn,bm)); return ok(-1); }
        case 40:{ SymMatrix S=symK(n); U vs=getU(r); S*vecK(vs); return ok(-1); }
        case 41:{ SymMatrix S=symK(n); U sn=getU(r); S+=symK(sn); return ok(-1); }
        case 42:{ SymMatrix S=symK(n); U sn=getU(r); S-=symK(sn); return ok(-1); }
        case 43:{ SymMatrix S=symK(n); U sn=getU(r); S*symK(sn); return ok(-1); }
        case 44:{ SymMatrix S=symK(n); U bn=getU(r),bm=getU(r); S*matK(bn,bm); return ok(-1); }
        case 45:{ Vector u=vecK(n); U vs=getU(r); u+vecK(vs); return ok(-1); }
        case 46:{ Vector u=vecK(n); U vs=getU(r); u-vecK(vs); return ok(-1); }
        case 47:{ Vector u=vecK(n); U vs=getU(r); u+=vecK(vs); return ok(-1); }
        case 48:{ Vector u=vecK(n); U vs=getU(r); u-=vecK(vs); return ok(-1); }
        case 49:{ Vector u=vecK(n); U vs=getU(r); u*vecK(vs); return ok(-1); }
        case 50:{ Vector u=vecK(n); U vs=getU(r); u.kmult(vecK(vs)); return ok(-1); }
        case 51:{ Vector u=vecK(n); U vs=getU(r); u.outer_product(vecK(vs)); return ok(-1); }
        case 52:{ Vector u=vecK(n); U bn=getU(r),bm=getU(r); u*matK(bn,bm); return ok(-1); }
        // binary operations of the other container pairs (guards partly implicit in the element accessors)
        case 60:{ SparseMatrix S=spK(n,c); U vs=getU(r); S*vecK(vs); return ok(-1); }
        case 61:{ SparseMatrix S=spK(n,c); U bn=getU(r),bm=getU(r); S*matK(bn,bm); return ok(-1); }
        case 62:{ SparseMatrix S=spK(n,c); U sn=getU(r); S*symK(sn); return ok(-1); }
        case 63:{ SparseMatrix S=spK(n,c); U bn=getU(r),bm=getU(r); S*spK(bn,bm); return ok(-1); }
        case 64:{ SparseMatrix S=spK(n,c); U bn=getU(r),bm=getU(r); S+spK(bn,bm); return ok(-1); }
        case 65:{ Matrix A=matK(n,c); U bn=getU(r),bm=getU(r); A*spK(bn,bm); return ok(-1); }
        case 66:{ SparseMatrix S=spK(n,c); FastSparseMatrix F(S); U vs=getU(r); F*vecK(vs); return ok(-1); }
        case 67:{ SparseMatrix S=spK(n,c); U vs=getU(r); S.transpose()*vecK(vs); return ok(-1); }
        case 68:{ SparseMatrix S=spK(n,c); U i=getU(r), vs=getU(r); S.setlin(vecK(vs),i); return ok(-1); }
        // converting constructors between containers: the source must have a shape the target can hold
        case 70:{ Matrix M=matK(n,c); SymMatrix S(M); double chk=0; for (size_t k=0;k<S.size();++k) chk+=S.data()[k]; (void)chk; return ok(-1); }
        case 71:{ SymMatrix S=symK(n); Matrix M(S); return ok((ll)M.nlin()*1000+M.ncol()); }
        case 72:{ Matrix M=matK(n,c); Vector v(M); return ok((ll)v.size()); }
        case 73:{ U vs=getU(r); Vector v=vecK(vs); Matrix M(v,n,c); return ok(-1); }
        case 74:{ SparseMatrix S=spK(n,c); Matrix M(S); return ok((ll)M.nlin()*1000+M.ncol()); }
        case 75:{ U vs=getU(r); Vector v=vecK(vs); SymMatrix S(v); return ok((ll)S.nlin()); }
        case 76:{ SymMatrix S=symK(n); Vector v(S); return ok((ll)v.size()); }
        case 53:{ Matrix A=matK(n,c); for (U i=0;i<std::min(n,c);++i) A(i,i)+=1000; A.inverse(); return ok(-1); }
        }
        } catch (std::invalid_argument&) { return Wire{0,-1}; }
        return Wire{-1};
    });
}

static std::string g_geom, g_cond;
static Geometry& geom() { static Geometry* g=nullptr; if (!g) { g=new Geometry(); g->load(g_geom,g_cond); } return *g; }

// [kind nameidx] : 0 mesh (non-const), 1 mesh (const), 2 interface, 3 domain ; names from env C18_NAMES
static Wire lookup(Reader& r) {
    static std::vector<std::string> names=split_env("C18_NAMES");
    ll kind=r.z(); size_t k=r.n(); if (k>=names.size()) return Wire{-1};
    const std::string& q=names[k];
    return guarded([&]()->Wire {
        Geometry& g=geom(); const Geometry& cg=g; ll pos=0;
        switch (kind) {
        case 0: { Mesh& m=g.mesh(q); if (m.name()!=q) return Wire{9}; for (auto& x:g.meshes()) { if (&x==&m) return Wire{0,pos}; ++pos; } return Wire{9}; }
        case 1: { const Mesh& m=cg.mesh(q); if (m.name()!=q) return Wire{9}; for (auto& x:cg.meshes()) { if (&x==&m) return Wire{0,pos}; ++pos; } return Wire{9}; }
        case 2: { const Interface& i=cg.interface(q); if (i.name()!=q) return Wire{9}; return Wire{0,-1}; }
        case 3: { const Domain& d=cg.domain(q); if (d.name()!=q) return Wire{9}; for (auto& x:cg.domains()) { if (&x==&d) return Wire{0,pos}; ++pos; } return Wire{9}; }
        }
        return Wire{-1};
    });
}

// [what pathidx] : paths from env C18_PATHS
static Wire io_open(Reader& r) {
    static std::vector<std::string> paths=split_env("C18_PATHS");
    ll what=r.z(); size_t k=r.n(); if (k>=paths.size()) return Wire{-1};
    const std::string& p=paths[k];
    return guarded([&]()->Wire {
        switch (what) {
        case 0: { Matrix M; M.load(p); return Wire{0}; }
        case 1: { Vector v; v.load(p); return Wire{0}; }
        case 2: { SymMatrix S; S.load(p); return Wire{0}; }
        case 3: { SparseMatrix S; S.load(p); return Wire{0}; }
        case 4: { Geometry g; g.load(p); return Wire{0}; }
        case 5: { Mesh m; m.load(p,false); return Wire{0}; }
        case 6: { Matrix M(2,2); M.set(1.0); M.save(p); return Wire{0}; }
        case 7: { Vector v(3); v.set(1.0); v.save(p); return Wire{0}; }
        case 8: { maths::info(p.c_str()); return Wire{0}; }
        case 9: { Geometry g; g.load(g_geom,p); return Wire{0}; }      // conductivity file
        }
        return Wire{-1};
    });
}

static ll fsize(const std::string& p) { struct stat st; return stat(p.c_str(),&st)==0 ? (ll)st.st_size : -1; }

// [kind fmt n k] : kind 0 Vector 1 Matrix 2 SymMatrix 3 SparseMatrix ; fmt index into {txt,bin,tex,mat} ; n size parameter ;
//  k>=0 : RLIMIT_FSIZE=k bytes ; k=-1 : /dev/full (through a symlink carrying the suffix) ; k=-2 : directory does not exist ; k=-3 : no fault
static Wire write_fault(Reader& r) {
    static const char* sfx[]={"txt","bin","tex","mat"};
    ll kind=r.z(), fmt=r.z(); U n=getU(r); ll k=r.z(); if (fmt<0 || fmt>3) return Wire{-1};
    std::string path=std::string("wf_out.")+sfx[fmt];
    unlink(path.c_str());
    if (k==-1) { if (symlink("/dev/full",path.c_str())!=0) return Wire{-1}; }
    if (k==-2) path=std::string("no_such_dir/")+path;
    struct rlimit old; getrlimit(RLIMIT_FSIZE,&old);
    if (k>=0) { struct rlimit lim=old; lim.rlim_cur=(rlim_t)k; setrlimit(RLIMIT_FSIZE,&lim); }
    Wire out=guarded([&]()->Wire {
        switch (kind) {
        case 0: { Vector v(n); for (U i=0;i<n;++i) v(i)=1.0+i; v.save(path); break; }
        case 1: { Matrix M(n,n+1); for (size_t i=0;i<M.size();++i) M.data()[i]=1.0+i; M.save(path); break; }
        case 4: { Matrix M(2,n); for (size_t i=0;i<M.size();++i) M.data()[i]=1.0+i; M.save(path); break; }      // wide: lines longer than the stream buffer
        case 5: { Matrix M(n,2); for (size_t i=0;i<M.size();++i) M.data()[i]=1.0+i; M.save(path); break; }      // tall
        case 2: { SymMatrix S(n); for (size_t i=0;i<S.size();++i) S.data()[i]=1.0+i; S.save(path); break; }
        case 3: { SparseMatrix S(n,n); for (U i=0;i<n;++i) S(i,(i*7)%n)=1.0+i; S.save(path); break; }
        default: return Wire{-1};
        }
        return Wire{0};
    });
    setrlimit(RLIMIT_FSIZE,&old);
    out.push_back(k==-1 ? 0 : fsize(path));
    unlink(path.c_str());
    return out;
}


// ---- other writers the property names: Mesh::save (tri bnd off mesh vtk), Geometry::save, Sensors::save ----
// [writer k] : writer 0..4 mesh formats, 5 Geometry::save(.geom), 6 Sensors::save(.txt) ; k as in write_fault, plus
//  k=-4 : path below a regular file ; k=-5 : the output name is an existing directory
static Wire writer_fault(Reader& r) {
    static const char* sfx[]={"tri","bnd","off","mesh","vtk","geom","sens"};
    ll w=r.z(), k=r.z(); if (w<0 || w>6) return Wire{-1};
    const bool big = !r.done() && r.z()==1;               // large model (files above the 8 KB stream buffer)
    std::string path=std::string("mw_out.")+sfx[w];
    unlink(path.c_str()); rmdir(path.c_str());
    if (k==-1) { if (symlink("/dev/full",path.c_str())!=0) return Wire{-1}; }
    if (k==-2) path=std::string("no_such_dir/")+path;
    if (k==-4) { FILE* f=fopen("mw_regular_file","w"); if (f) fclose(f); path=std::string("mw_regular_file/")+path; }
    if (k==-5) { mkdir(path.c_str(),0755); }
    struct rlimit old; getrlimit(RLIMIT_FSIZE,&old);
    static Geometry* gl=nullptr; if (big && !gl && getenv("C18_GEOM_L")) { gl=new Geometry(); gl->load(getenv("C18_GEOM_L"),getenv("C18_COND_L")); }
    Geometry& g=(big && gl) ? *gl : geom();             // loaded before the limit applies
    static Sensors* sens=nullptr; if (!sens && getenv("C18_SENSORS")) sens=new Sensors(getenv("C18_SENSORS"));
    if (k>=0) { struct rlimit lim=old; lim.rlim_cur=(rlim_t)k; setrlimit(RLIMIT_FSIZE,&lim); }
    Wire out=guarded([&]()->Wire {
        if (w<=4) g.meshes().front().save(path);
        else if (w==5) g.save(path);
        else { if (!sens) return Wire{-1}; sens->save(path); }
        return Wire{0};
    });
    setrlimit(RLIMIT_FSIZE,&old);
    struct stat st; bool isdir = stat(path.c_str(),&st)==0 && S_ISDIR(st.st_mode);
    out.push_back((k==-1 || isdir) ? 0 : fsize(path));
    if (isdir) rmdir(path.c_str()); else unlink(path.c_str());
    unlink("mw_regular_file");
    return out;
}

// [what nameidx] : strict format selection. what 0: MathsIO::format_from_suffix(name) ; 1: MathsIO::format(name) ;
//  2: Matrix::save(name) then the format actually written (sniffed) ; names from env C18_SUFFIX_NAMES
static int sniff(const std::string& p) {
    std::ifstream f(p.c_str(),std::ios::binary); char b[16]={0}; f.read(b,15);
    if (!strncmp(b,"MATLAB",6)) return 3;
    if (!strncmp(b,"ascii",5)) return 2;
    bool text = b[0]!=0; for (int i=0;i<15 && b[i];++i) if (!(isdigit((unsigned char)b[i]) || strchr(" \t\n.-+e",b[i]))) text=false;
    return text ? 0 : 1;
}
static Wire format_select(Reader& r) {
    static std::vector<std::string> names=split_env("C18_SUFFIX_NAMES");
    ll what=r.z(); size_t k=r.n(); if (k>=names.size()) return Wire{-1};
    const std::string& q=names[k];
    static const char* ids[]={"ascii","binary","tex","matlab"};
    auto idof=[&](const maths::MathsIO::IO io)->ll { for (int i=0;i<4;++i) if (io->identity()==ids[i]) return i; return 9; };
    return guarded([&]()->Wire {
        switch (what) {
        case 0: return Wire{0,idof(maths::MathsIO::format_from_suffix(q))};
        case 1: return Wire{0,idof(maths::MathsIO::format(q))};
        case 2: { Matrix M(2,3); for (size_t i=0;i<6;++i) M.data()[i]=1.0+i; M.save(q); Wire o{0,(ll)sniff(q)}; unlink(q.c_str()); return o; }
        }
        return Wire{-1};
    });
}

// exactly singular matrices: [kind] 0 Matrix::inverse 2x2 [[1,2],[2,4]] ; 1 SymMatrix::inverse ; 2 SymMatrix::solveLin(Vector) ; 3 posdefinverse of a singular PSD
static Wire singular(Reader& r) {
    ll kind=r.z();
    return guarded([&]()->Wire {
        auto fin=[](const double* d,size_t n){ for (size_t i=0;i<n;++i) if (!std::isfinite(d[i])) return 0; return 1; };
        switch (kind) {
        case 0: { Matrix A(2,2); A(0,0)=1; A(0,1)=2; A(1,0)=2; A(1,1)=4; Matrix I=A.inverse(); return Wire{0,fin(I.data(),4)}; }
        case 1: { SymMatrix S(2u); S(0,0)=1; S(0,1)=2; S(1,1)=4; SymMatrix I=S.inverse(); return Wire{0,fin(I.data(),3)}; }
        case 2: { SymMatrix S(2u); S(0,0)=1; S(0,1)=2; S(1,1)=4; Vector b(2); b(0)=1; b(1)=1; Vector x=S.solveLin(b); return Wire{0,fin(x.data(),2)}; }
        case 3: { SymMatrix S(2u); S(0,0)=1; S(0,1)=2; S(1,1)=4; SymMatrix I=S.posdefinverse(); return Wire{0,fin(I.data(),3)}; }
        case 4: { Matrix A(2,2); A.set(0.0); Matrix I=A.inverse(); return Wire{0,fin(I.data(),4)}; }
        case 5: { SymMatrix S(2u); S.set(0.0); SymMatrix I=S.inverse(); return Wire{0,fin(I.data(),3)}; }
        }
        return Wire{-1};
    });
}


// ---- state left by a (failed) load: [objkind fmt failclass] -> [status nl nc storage_consistent unchanged canaries_ok] ----
// objkind 0 Vector(3) 1 Matrix(2,3) 2 SymMatrix(3) ; fmt index {txt,bin,tex,mat} ; failclass 0 file of another kind (bigger),
// 1 same kind, bigger, truncated to half, 2 same kind under an unknown suffix, 3 missing, 4 empty file, 5 control: same kind, bigger (must load)
template <typename T> static Wire after_load(T& obj,const std::string& path,size_t expect_cells_fn(const T&)) {
    const unsigned nl0=obj.nlin(), nc0=obj.ncol(); std::vector<double> v0(obj.data(),obj.data()+obj.size());
    Wire st=guarded([&]()->Wire { obj.load(path); return Wire{0}; });
    Wire out{st[0],(ll)obj.nlin(),(ll)obj.ncol()};
    const size_t cells=expect_cells_fn(obj);
    const bool consistent = (cells==0) || (obj.data()!=nullptr && block_bytes(obj.data())>=cells*sizeof(double));
    bool unchanged = obj.nlin()==nl0 && obj.ncol()==nc0 && cells==v0.size();
    if (unchanged && consistent) for (size_t k=0;k<cells;++k) if (obj.data()[k]!=v0[k]) unchanged=false;
    out.push_back(consistent); out.push_back(unchanged);
    return out;
}
static size_t cellsV(const Vector& v) { return v.nlin(); }
static size_t cellsM(const Matrix& m) { return (size_t)m.nlin()*m.ncol(); }
static size_t cellsS(const SymMatrix& s) { return (size_t)s.nlin()*(s.nlin()+1)/2; }
static Wire failed_load(Reader& r) {
    static const char* sfx[]={"txt","bin","tex","mat"};
    ll kind=r.z(), fmt=r.z(), fc=r.z(); if (kind<0||kind>2||fmt<0||fmt>3||fc<0||fc>5) return Wire{-1};
    std::string path=std::string("fl_in.")+sfx[fmt]; unlink(path.c_str()); unlink("fl_in.xyz");
    // the file
    try {
        const ll fk = (fc==0) ? (kind+1)%3 : kind;          // kind stored in the file
        if (fc!=3 && fc!=4) {
            if (fk==0) { Vector v(7); for (unsigned i=0;i<7;++i) v(i)=10+i; v.save(path); }
            if (fk==1) { Matrix M(4,5); for (size_t i=0;i<20;++i) M.data()[i]=10+i; M.save(path); }
            if (fk==2) { SymMatrix S(5u); for (size_t i=0;i<15;++i) S.data()[i]=10+i; S.save(path); }
        }
        if (fc==4) { FILE* f=fopen(path.c_str(),"w"); if (f) fclose(f); }
        if (fc==1) { struct stat st; if (stat(path.c_str(),&st)==0) truncate(path.c_str(),st.st_size/2); }
        if (fc==2) { rename(path.c_str(),"fl_in.xyz"); path="fl_in.xyz"; }
    } catch (...) { return Wire{-1}; }
    Wire out; const void* buf=nullptr; unsigned nl=0,nc=0;
    auto touch=[&](auto& obj,auto last) {      // element accesses at the reported bounds, through the asserted accessors
        try { if (obj.nlin()>0 && obj.ncol()>0) { last(obj); } } catch (...) { }
        out.push_back(canary_ok(obj.data()));
    };
    if (kind==0) { Vector v(3); for (unsigned i=0;i<3;++i) v(i)=1+i; out=after_load(v,path,cellsV); touch(v,[](Vector& x){ x(x.nlin()-1)=42.0; volatile double d=x(0); (void)d; }); }
    if (kind==1) { Matrix M(2,3); for (size_t i=0;i<6;++i) M.data()[i]=1+i; out=after_load(M,path,cellsM); touch(M,[](Matrix& x){ x(x.nlin()-1,x.ncol()-1)=42.0; x(0,x.ncol()-1)=41.0; }); }
    if (kind==2) { SymMatrix S(3u); for (size_t i=0;i<6;++i) S.data()[i]=1+i; out=after_load(S,path,cellsS); touch(S,[](SymMatrix& x){ x(x.nlin()-1,x.nlin()-1)=42.0; x(0,x.nlin()-1)=41.0; }); }
    unlink(path.c_str()); unlink("fl_in.xyz");
    return out;
}

// ---- public entry points that take a mesh / interface / domain NAME: [entry nameidx] ----
static Wire named_entry(Reader& r) {
    static std::vector<std::string> names=split_env("C18_NAMES");
    ll e=r.z(); size_t k=r.n(); if (k>=names.size()) return Wire{-1};
    const std::string& q=names[k];
    return guarded([&]()->Wire {
        const Geometry& g=geom();
        Matrix dip(2,6); dip.set(0.0); dip(0,2)=0.3; dip(0,5)=1.0; dip(1,0)=0.2; dip(1,3)=1.0;
        static Sensors* sens=nullptr; if (!sens && getenv("C18_SENSORS")) sens=new Sensors(getenv("C18_SENSORS"),g);
        switch (e) {
        case 0: { Matrix M=DipSourceMat(g,dip,q); return Wire{0,(ll)M.nlin(),(ll)M.ncol()}; }
        case 1: { Matrix pts(1,3); pts.set(0.0); pts(0,0)=0.1; Matrix M=DipSource2InternalPotMat(g,dip,pts,q); return Wire{0,(ll)M.nlin(),(ll)M.ncol()}; }
        case 2: { if (!sens) return Wire{-1}; SparseMatrix M=Head2ECoGMat(g,*sens,q); return Wire{0,(ll)M.nlin(),(ll)M.ncol()}; }
        case 3: { if (!sens) return Wire{-1}; SparseMatrix H=Head2EEGMat(g,*sens); Matrix M=CorticalMat(g,H,q); return Wire{0,(ll)M.nlin(),(ll)M.ncol()}; }
        case 4: { if (!sens) return Wire{-1}; SparseMatrix H=Head2EEGMat(g,*sens); Matrix M=CorticalMat2(g,H,q); return Wire{0,(ll)M.nlin(),(ll)M.ncol()}; }
        }
        return Wire{-1};
    });
}


// ---- lookups on a REUSED Geometry: model A loaded, every name looked up once, model B loaded into the same object ----
// [kind nameidx] -> [0 pos nvertices] | class ; 9 = an object of another name was returned
static Wire reused_lookup(Reader& r) {
    static std::vector<std::string> names=split_env("C18_NAMES");
    static Geometry* g=nullptr;
    if (!g) {
        g=new Geometry(); g->load(g_geom,g_cond);
        for (const std::string& q : names) {
            try { g->mesh(q); } catch (...) { }
            try { const Geometry& c=*g; c.mesh(q); } catch (...) { }
            try { g->interface(q); } catch (...) { }
            try { g->domain(q); } catch (...) { }
        }
        g->load(getenv("C18_GEOM_B"),getenv("C18_COND_B"));
    }
    ll kind=r.z(); size_t k=r.n(); if (k>=names.size()) return Wire{-1};
    const std::string& q=names[k];
    return guarded([&]()->Wire {
        const Geometry& cg=*g; ll pos=0;
        switch (kind) {
        case 0: { Mesh& m=g->mesh(q); for (auto& x:g->meshes()) { if (&x==&m) { if (m.name()!=q) return Wire{9,pos}; return Wire{0,pos,(ll)m.vertices().size()}; } ++pos; } return Wire{9,-1}; }
        case 1: { const Mesh& m=cg.mesh(q); for (auto& x:cg.meshes()) { if (&x==&m) { if (m.name()!=q) return Wire{9,pos}; return Wire{0,pos,(ll)m.vertices().size()}; } ++pos; } return Wire{9,-1}; }
        case 2: { const Interface& i=cg.interface(q); if (i.name()!=q) return Wire{9,-1}; return Wire{0,-1,-1}; }
        case 3: { const Domain& d=cg.domain(q); for (auto& x:cg.domains()) { if (&x==&d) { if (d.name()!=q) return Wire{9,pos}; return Wire{0,pos,-1}; } ++pos; } return Wire{9,-1}; }
        }
        return Wire{-1};
    });
}

// replay of the refuted accessor theorem: SymMatrix(65536)(0,65535): pinned = write far outside a 256 KB buffer
static Wire big_sym(Reader& r) {
    U n=getU(r), i=getU(r), j=getU(r);
    return guarded([&]()->Wire { SymMatrix S(n); S(i,j)=1.0; return Wire{0,(ll)S.size()}; });
}

int main(int argc,char** argv) {
    if (argc<2) return 2;
    struct rlimit rl; rl.rlim_cur=rl.rlim_max=(rlim_t)3<<30; setrlimit(RLIMIT_AS,&rl);
    signal(SIGXFSZ,SIG_IGN);
    if (getenv("C18_GEOM")) g_geom=getenv("C18_GEOM");
    if (getenv("C18_COND")) g_cond=getenv("C18_COND");
    return run_cases(argv[1],[&](const std::string& comp,Reader& r)->Wire {
        if (comp!="c18") return Wire{-2};
        ll op=r.z();
        switch (op) {
        case 1: return access(r);
        case 2: return lookup(r);
        case 3: return io_open(r);
        case 4: return write_fault(r);
        case 5: return big_sym(r);
        case 6: return writer_fault(r);
        case 7: return format_select(r);
        case 8: return singular(r);
        case 9: return failed_load(r);
        case 10: return named_entry(r);
        case 11: return reused_lookup(r);
        }
        return Wire{-1};
    });
}
