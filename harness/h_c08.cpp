// C08 harness: DipSourceMat / DipSource2MEGMat / DipSource2InternalPotMat / Integrator::integrate of the current tree.
// Models are read from files <cwd>/m<id>/model.geom|cond written by the check (lib/models.py).
#include "wire.h"
#include <map>
#include <set>
#include <list>
#include <memory>
#include <algorithm>
#include <numeric>
#include <limits>
#include <iomanip>
#include <array>
#include <tuple>
#include <random>
#include <exception>
#include <mutex>
#include <omp.h>
#define private public
#define protected public
#include <integrator.h>
#undef private
#undef protected
#include <geometry.h>
#include <assemble.h>
#include <sensors.h>
#include <dipole.h>
#include <constants.h>
#include <matrix.h>
#include <sparse_matrix.h>
#include <symmatrix.h>
#include <progressbar.h>
#define private public
#include <gain.h>
#undef private
#include <map>
#include <memory>
#include "wire.h"

using namespace OpenMEEG;

// LAPACKE / BLAS report illegal arguments by printing to the C stdout, which would corrupt the result lines: count instead
static int xerbla_calls = 0;
extern "C" void LAPACKE_xerbla(const char*,int) { ++xerbla_calls; }
extern "C" void cblas_xerbla(blasint,char*,char*,...) { ++xerbla_calls; }

static std::map<ll,std::unique_ptr<Geometry>> geos;
static const Geometry& geo_of(ll id) {
    auto it = geos.find(id);
    if (it!=geos.end()) return *it->second;
    const std::string d = "m"+std::to_string(id)+"/";
    std::unique_ptr<Geometry> g(new Geometry(d+"model.geom",d+"model.cond"));
    return *(geos[id] = std::move(g));
}
static size_t dom_index(const Geometry& g,const Domain& d) {
    size_t k=0; for (const auto& x : g.domains()) { if (&x==&d) return k; ++k; } return (size_t)-1;
}
static Matrix getDipoles(size_t n,FReader& f) { Matrix M(n,6); for (size_t i=0;i<n;++i) for (int k=0;k<6;++k) M(i,k)=f.x(); return M; }
static Matrix getPoints(size_t n,FReader& f) { Matrix M(n,3); for (size_t i=0;i<n;++i) for (int k=0;k<3;++k) M(i,k)=f.x(); return M; }
static FWire outMat(const Matrix& M) { FWire o; o.z = Wire{ST_OK,(ll)M.nlin(),(ll)M.ncol()}; o.f.assign(M.data(),M.data()+M.size()); return o; }
static std::string dom_name(const Geometry& g,ll k) {
    if (k<0) return "";
    size_t i=0; for (const auto& d : g.domains()) { if ((ll)i==k) return d.name(); ++i; }
    return "no-such-domain";
}

static FWire c08(Reader& r,FReader& f) {
    const ll op = r.z();
    switch (op) {
    case 1: {   // describe: structure of the geometry as loaded + containment of the given points
        const Geometry& g = geo_of(r.z());
        FWire o; o.z.push_back(ST_OK);
        o.z.push_back((ll)(g.nb_parameters()-g.nb_current_barrier_triangles()));
        o.z.push_back((ll)g.domains().size());
        std::map<const Triangle*,ll> serial;
        std::vector<double> coords;      // 9 doubles per triangle, in serial order (appended after the conductivities)
        size_t k=0;
        for (const auto& d : g.domains()) {
            o.z.push_back((ll)k++); o.z.push_back(d.conductivity()!=0.0 ? 1 : 0); o.z.push_back((ll)d.boundaries().size());
            o.f.push_back(d.conductivity());
            for (const auto& b : d.boundaries()) {
                o.z.push_back(b.inside() ? 1 : 0); o.z.push_back((ll)b.interface().oriented_meshes().size());
                for (const auto& om : b.interface().oriented_meshes()) {
                    const Mesh& m = om.mesh();
                    o.z.push_back(om.orientation()); o.z.push_back(m.current_barrier() ? 1 : 0); o.z.push_back((ll)m.triangles().size());
                    for (const auto& t : m.triangles()) {
                        if (!serial.count(&t)) {
                            const ll s=(ll)serial.size(); serial[&t]=s;
                            for (int v=0;v<3;++v) { coords.push_back(t.vertex(v).x()); coords.push_back(t.vertex(v).y()); coords.push_back(t.vertex(v).z()); }
                        }
                        o.z.push_back(t.index()); o.z.push_back(t.vertex(0).index()); o.z.push_back(t.vertex(1).index());
                        o.z.push_back(t.vertex(2).index()); o.z.push_back(serial[&t]);
                    }
                }
            }
        }
        o.f.insert(o.f.end(),coords.begin(),coords.end());
        return o;
    }
    case 7: {   // containment: for each point, the ids of the domains that contain it
        const Geometry& g = geo_of(r.z()); const size_t np = r.n();
        FWire o; o.z.push_back(ST_OK);
        for (size_t i=0;i<np;++i) {
            const double x=f.x(), y=f.x(), z=f.x(); const Vect3 p(x,y,z);
            Wire c; size_t k=0;
            for (const auto& d : g.domains()) { if (d.contains(p)) c.push_back((ll)k); ++k; }
            o.z.push_back((ll)c.size()); for (ll v : c) o.z.push_back(v);
            // ... and what Geometry::domain(p) itself answers (-1: it throws)
            ll loc=-1;
            try { loc=(ll)dom_index(g,g.domain(p)); } catch (...) { loc=-1; }
            o.z.push_back(loc);
        }
        return o;
    }
    case 2: {   // DipSourceMat: mid order levels named ndip | tol dipoles
        const Geometry& g = geo_of(r.z()); const unsigned order=(unsigned)r.n(), levels=(unsigned)r.n(); const ll named=r.z(); const size_t nd=r.n();
        const double tol=f.x(); const Matrix D = getDipoles(nd,f);
        return outMat(DipSourceMat(g,D,Integrator(order,levels,tol),dom_name(g,named)));
    }
    case 3: {   // DipSource2MEGMat: npos ndip | pos(3) ori(3) weight per position, dipoles
        const size_t np=r.n(), nd=r.n();
        Matrix P(np,3), O(np,3); Vector W(np), R(np); Strings L;
        for (size_t i=0;i<np;++i) { for (int k=0;k<3;++k) P(i,k)=f.x(); for (int k=0;k<3;++k) O(i,k)=f.x(); W(i)=f.x(); R(i)=0.0; L.push_back("s"+std::to_string(i)); }
        const Matrix D = getDipoles(nd,f);
        const Sensors S(L,P,O,W,R);
        return outMat(DipSource2MEGMat(D,S));
    }
    case 4: {   // DipSource2InternalPotMat: mid named npts ndip | points dipoles
        const Geometry& g = geo_of(r.z()); const ll named=r.z(); const size_t np=r.n(), nd=r.n();
        const Matrix P = getPoints(np,f); const Matrix D = getDipoles(nd,f);
        return outMat(DipSource2InternalPotMat(g,D,P,dom_name(g,named)));
    }
    case 5: {   // Integrator::integrate on a synthetic integrand: kind depth order | tol tri(9) params
        const ll kind=r.z(); const unsigned depth=(unsigned)r.n(), order=(unsigned)r.n();
        const double tol=f.x();
        Vertex v0(f.x(),0,0); v0.y()=f.x(); v0.z()=f.x();
        Vertex v1(f.x(),0,0); v1.y()=f.x(); v1.z()=f.x();
        Vertex v2(f.x(),0,0); v2.y()=f.x(); v2.z()=f.x();
        std::vector<double> c; while (!f.done()) c.push_back(f.x());
        c.resize(8,0.0);
        const Triangle T(v0,v1,v2,0);
        const Integrator I(order,depth,tol);
        size_t evals=0;
        const Vect3 r0(c[0],c[1],c[2]), q(c[3],c[4],c[5]);
        auto pot = [&](const Vect3& p) { const Vect3 x=p-r0; const double n2=x.x()*x.x()+x.y()*x.y()+x.z()*x.z(); return (q.x()*x.x()+q.y()*x.y()+q.z()*x.z())/(n2*sqrt(n2)); };
        FWire o;
        if (kind==0) {
            auto fn = [&](const Vect3& p) { ++evals; return c[0]+c[1]*p.x()+c[2]*p.y()+c[3]*p.z()+c[4]*p.x()*p.x()+c[5]*p.x()*p.y()+c[6]*p.z()*p.z(); };
            const double v = I.integrate(fn,T); o.f.push_back(v);
        } else if (kind==1) {
            auto fn = [&](const Vect3& p) { ++evals; return pot(p); };
            const double v = I.integrate(fn,T); o.f.push_back(v);
        } else {
            auto fn = [&](const Vect3& p) { ++evals; const Vect3 x=p-r0; return x*pot(p); };
            const Vect3 v = I.integrate(fn,T); o.f.push_back(v.x()); o.f.push_back(v.y()); o.f.push_back(v.z());
        }
        const size_t npts = Integrator::nbPts[I.order];
        o.z = Wire{ST_OK,(ll)((evals/npts-1)/4)};
        return o;
    }
    case 8: {   // EITSourceMat: mid nelec | electrode positions (radius 0: point electrodes, injection triangle found by the library)
        const Geometry& g = geo_of(r.z()); const size_t ne=r.n();
        const Matrix P = getPoints(ne,f);
        const Sensors electrodes(P,g);
        return outMat(EITSourceMat(g,electrodes));
    }
    case 9: {   // SurfSourceMat: mid k  (source mesh file m<mid>/src<k>.tri), default integrator
        const ll mid=r.z(); const Geometry& g = geo_of(mid); const ll k=r.z();
        Mesh src("m"+std::to_string(mid)+"/src"+std::to_string(k)+".tri");
        return outMat(SurfSourceMat(g,src));
    }
    case 10: {  // reuse stream: ONE Geometry object loaded with model A, used, re-loaded with model B, then asked for the same
                // dipole list first.  which: 0 DipSourceMat, 1 DipSource2InternalPotMat (points = the floats after the dipoles)
        const ll midA=r.z(), midB=r.z(), which=r.z(); const unsigned order=(unsigned)r.n(), levels=(unsigned)r.n(); const size_t nd=r.n(), np=r.n();
        const double tol=f.x(); const Matrix D = getDipoles(nd,f); const Matrix P = getPoints(np,f);
        const std::string a = "m"+std::to_string(midA)+"/", b = "m"+std::to_string(midB)+"/";
        Geometry g(a+"model.geom",a+"model.cond");
        try {
            if (which==0) (void)DipSourceMat(g,D,Integrator(order,levels,tol),"");
            else          (void)DipSource2InternalPotMat(g,D,P,"");
        } catch (...) { }      // the list is meant for B: in A it may be refused
        g.load(b+"model.geom",b+"model.cond");
        if (which==0) return outMat(DipSourceMat(g,D,Integrator(order,levels,tol),""));
        return outMat(DipSource2InternalPotMat(g,D,P,""));
    }
    case 11: {  // every gain class of gain.h for a batch, for the permuted batch and for every dipole alone (one head matrix):
                // mid nd perm[nd] | dipoles ; sensors from m<mid>/eeg.txt, meg.txt
        const ll mid=r.z(); const Geometry& g = geo_of(mid); const size_t nd=r.n();
        std::vector<size_t> perm(nd); for (size_t i=0;i<nd;++i) perm[i]=r.n();
        const Matrix D = getDipoles(nd,f);
        const std::string d = "m"+std::to_string(mid)+"/";
        const Sensors electrodes((d+"eeg.txt").c_str()); const Sensors squids((d+"meg.txt").c_str());
        const SymMatrix HM = HeadMat(g); const SymMatrix HMi = HM.inverse();
        const SparseMatrix H2E = Head2EEGMat(g,electrodes); const Matrix H2M = Head2MEGMat(g,squids);
        FWire o; o.z = Wire{ST_OK,(ll)H2E.nlin(),(ll)H2M.nlin(),(ll)nd};
        auto put = [&](const Matrix& M) { for (size_t i=0;i<M.nlin();++i) for (size_t j=0;j<M.ncol();++j) o.f.push_back(M(i,j)); };
        auto gains = [&](const Matrix& dip) {
            const Matrix SM = DipSourceMat(g,dip,""); const Matrix S2M = DipSource2MEGMat(dip,squids);
            const GainEEG g1(HMi,SM,H2E); const GainEEGadjoint g2(g,dip,HM,H2E); const GainEEGMEGadjoint g36(g,dip,HM,H2E,H2M,S2M);
            const GainMEG g4(HMi,SM,H2M,S2M); const GainMEGadjoint g5(g,dip,HM,H2M,S2M);
            put(g1); put(g2); put(g36.EEGleadfield); put(g4); put(g5); put(g36.MEGleadfield);
        };
        gains(D);
        Matrix Dp(nd,6); for (size_t i=0;i<nd;++i) for (int k=0;k<6;++k) Dp(i,k)=D(perm[i],k);
        gains(Dp);
        for (size_t i=0;i<nd;++i) gains(D.submat(i,1,0,6));
        return o;
    }
    case 6: {   // the quadrature tables compiled into the library
        FWire o; o.z.push_back(ST_OK);
        for (unsigned ord=1; ord<4; ++ord) {
            o.z.push_back(Integrator::nbPts[ord]);
            for (unsigned i=0;i<Integrator::nbPts[ord];++i) {
                for (int j=0;j<3;++j) o.f.push_back(Integrator::rules[ord][i].barycentric_coordinates[j]);
                o.f.push_back(Integrator::rules[ord][i].weight);
            }
        }
        o.f.push_back(K); o.f.push_back(MagFactor);      // constants.h
        return o;
    }
    }
    return FWire{Wire{-1},{}};
}

int main(int argc,char** argv) {
    if (argc<2) return 2;
    return run_cases_f(argv[1],[&](const std::string& comp,Reader& r,FReader& f)->FWire { if (comp=="c08") return c08(r,f); return FWire{Wire{-2},{}}; });
}
