// C10 harness: head-matrix assembly of the current /repo tree.
//   c10 1 <model> <old>                 : dump indexed geometry + kernel tables + HeadMat(geo)
//   c10 2 <model> <old> <pair> <seed>   : N block of one mesh pair from an injected integer S (private templates)
//   c10 3 <model> <old>                 : numeric spec checks (row sums, singular values, A*inv(A)-I)
// models live in ./m<model>/model.geom + model.cond (cwd = the check's work directory); a negative model number -k
// selects the k-th entry of ./paths.txt (lines "geom cond").
#include "wire.h"
#include <iomanip>
#include <map>
#include <set>
#include <algorithm>
#include <geometry.h>
#include <mesh.h>
#include <assemble.h>
#include <analytics.h>
#include <integrator.h>
#include <constants.h>
#include <vector.h>
#include <matrix.h>
#include <symmatrix.h>
#include <symm_block_matrix.h>
#include <sparse_matrix.h>
#include <logger.h>
#include <progressbar.h>
// only operators.h itself is opened up: the private N(coeff,S,matrix) templates of the block classes
#define private public
#define protected public
#include <operators.h>
#undef private
#undef protected
#include "c10_ops.h"

using namespace OpenMEEG;

static void model_paths(ll id,std::string& g,std::string& c) {
    if (id>=0) { g = "m"+std::to_string(id)+"/model.geom"; c = "m"+std::to_string(id)+"/model.cond"; return; }
    std::ifstream in("paths.txt"); std::string a,b; ll k=0;
    while (in >> a >> b) { if (++k==-id) { g=a; c=b; return; } }
    throw Reader::Malformed();
}

static ll vid(const Geometry& geo,const Vertex& v) { return &v-&geo.vertices()[0]; }
static ll mid(const Geometry& geo,const Mesh& m)   { return &m-&geo.meshes()[0]; }

// the indexed geometry, in the order coq/Geom/RunC10.v decodes it
static void dump_shape(const Geometry& geo,Wire& z) {
    z.push_back((ll)geo.vertices().size());
    for (const auto& v : geo.vertices()) z.push_back((ll)v.index());
    z.push_back((ll)geo.meshes().size());
    for (const auto& m : geo.meshes()) {
        z.push_back((ll)m.vertices().size());
        for (const auto& vp : m.vertices()) z.push_back(vid(geo,*vp));
        z.push_back((ll)m.triangles().size());
        for (const auto& t : m.triangles()) {
            for (unsigned i=0;i<3;++i) z.push_back(vid(geo,t.vertex(i)));
            z.push_back((ll)t.index());
        }
        z.push_back(m.outermost()); z.push_back(m.current_barrier()); z.push_back(m.isolated());
    }
    z.push_back((ll)geo.communicating_mesh_pairs().size());
    for (const auto& mp : geo.communicating_mesh_pairs()) {
        z.push_back(mid(geo,mp(0))); z.push_back(mid(geo,mp(1))); z.push_back(mp.relative_orientation());
    }
    z.push_back((ll)geo.isolated_parts().size());
    for (const auto& part : geo.isolated_parts()) {
        z.push_back((ll)part.size());
        for (const auto& mp : part) z.push_back(mid(geo,*mp));
    }
    z.push_back((ll)geo.nb_parameters()); z.push_back((ll)geo.nb_current_barrier_triangles());
}

static void dump_pos_areas(const Geometry& geo,std::vector<double>& f) {
    for (const auto& v : geo.vertices()) { f.push_back(v.x()); f.push_back(v.y()); f.push_back(v.z()); }
    for (const auto& m : geo.meshes()) for (const auto& t : m.triangles()) f.push_back(t.area());
}

static void kernel_S(const Integrator& integrator,const Mesh& m1,const Mesh& m2,std::vector<double>& f) {
    for (const auto& t1 : m1.triangles()) {
        const analyticS analyS(t1);
        const auto& Sfunc = [&analyS](const Vect3& r) { return analyS.f(r); };
        for (const auto& t2 : m2.triangles()) f.push_back(integrator.integrate(Sfunc,t2));
    }
}
static void kernel_D(const Integrator& integrator,const Mesh& m1,const Mesh& m2,std::vector<double>& f) {
    for (const auto& t1 : m1.triangles())
        for (const auto& t2 : m2.triangles()) {
            const analyticD3 analyD(t2);
            const auto& Dfunc = [&analyD](const Vect3& r) { return analyD.f(r); };
            const Vect3& total = integrator.integrate(Dfunc,t1);
            for (unsigned i=0;i<3;++i) f.push_back(total(i));
        }
}

struct SynS {
    unsigned np; const std::vector<double>* tab;
    double operator()(const unsigned i,const unsigned j) const {
        if (i>=np || j>=np) throw std::invalid_argument("SynS");
        return (*tab)[(size_t)i*np+j];
    }
};

static FWire dispatch(const std::string& comp,Reader& r,FReader&) {
    if (comp!="c10") throw Reader::Malformed();
    const ll op = r.z();
    const ll model = r.z(); const bool old = r.z()!=0;
    std::string gf,cf; model_paths(model,gf,cf);
    Geometry geo(gf,cf,old);
    const Integrator integrator(3,0,0.005);   // the default of HeadMat (assemble.h)
    FWire out;
    const std::string dir = gf.substr(0,gf.rfind('/'));
    if (op==4 || op==5 || op==7 || op==9) {
        c10::Kernels kf;
        kf.S = [&](const Triangle& t1,const Triangle& t2) { const analyticS a(t1); const auto& f = [&a](const Vect3& r) { return a.f(r); }; return integrator.integrate(f,t2); };
        kf.D = [&](const Triangle& t1,const Triangle& t2) { const analyticD3 a(t2); const auto& f = [&a](const Vect3& r) { return a.f(r); }; const Vect3 v = integrator.integrate(f,t1); return v; };
        kf.Sp = [](const Triangle& t,const Vect3& p,ll) { const analyticS a(t); return a.f(p); };
        kf.Dp = [](const Triangle& t,const Vect3& p,ll) { const analyticD3 a(t); return a.f(p); };
        kf.reg = [](const Geometry&,const Mesh*,const std::vector<Vect3>&) { };
        return c10::run(op,dir,geo,r,integrator,kf);
    }
    if (op==10) {  // the API user's way: ONE loaded Geometry, finalize() / finalize(true) / finalize(false) in turn;
                   // after each, dimension and head matrix must equal those of a FRESH load with that ordering.  `old` = may use the old ordering
        auto fresh = [&](const bool o) { Geometry g2(gf,cf,o); return HeadMat(g2,integrator); };
        auto same = [](const SymMatrix& A,const SymMatrix& B) { return A.nlin()==B.nlin() && (A.size()==0 || std::memcmp(A.data(),B.data(),A.size()*sizeof(double))==0); };
        std::vector<bool> seq = { false };              // the load itself finalized with the default ordering
        if (old) { seq.push_back(true); seq.push_back(false); seq.push_back(true); } else { seq.push_back(false); seq.push_back(false); }
        Geometry g1(gf,cf,false);
        out.z.push_back(ST_OK); out.z.push_back((ll)seq.size());
        for (size_t k=0;k<seq.size();++k) {
            if (k>0) g1.finalize(seq[k]);
            const SymMatrix F = fresh(seq[k]);
            ll dim = -1, eq = 0, status = 0;
            const ll expect = (ll)g1.nb_parameters()-(ll)g1.nb_current_barrier_triangles();
            try { const SymMatrix H = HeadMat(g1,integrator); dim = H.nlin(); eq = same(H,F); }
            catch (std::invalid_argument&) { status = 1; } catch (std::exception&) { status = 3; }
            out.z.push_back(seq[k]); out.z.push_back(status); out.z.push_back(expect); out.z.push_back(dim); out.z.push_back((ll)F.nlin()); out.z.push_back(eq);
        }
        return out;
    }
    if (op==6) {   // Head2MEGMat
        const Sensors sq((dir+"/squids.txt").c_str());
        const Matrix& positions = sq.getPositions(); const Matrix& orientations = sq.getOrientations();
        const unsigned npts = sq.getNumberOfPositions();
        out.z.push_back(ST_OK);
        c10::shape(geo,nullptr,out.z);
        out.z.push_back((ll)geo.vertices().size()); out.z.push_back((ll)npts);
        const SparseMatrix W = sq.getWeightsMatrix();
        out.z.push_back((ll)W.tank().size());
        for (const auto& e : W.tank()) { out.z.push_back((ll)e.first.first); out.z.push_back((ll)e.first.second); }
        out.z.push_back((ll)sq.getNumberOfSensors());
        c10::common_floats(geo,nullptr,out.f);
        out.f.push_back(MagFactor);
        for (const auto& m : geo.meshes()) out.f.push_back(geo.conductivity_jump(m));
        for (unsigned i=0;i<npts;++i) for (unsigned k=0;k<3;++k) out.f.push_back(orientations(i,k));
        for (const auto& e : W.tank()) out.f.push_back(e.second);
        for (const auto& m : geo.meshes()) {
            if (m.isolated()) continue;
            for (unsigned i=0;i<npts;++i) {
                const Vect3 x(positions(i,0),positions(i,1),positions(i,2));
                for (const auto& vp : m.vertices())
                    for (const auto& tp : m.triangles(*vp)) {
                        const Edge& edge = tp->edge(*vp);
                        const analyticS a(*vp,edge.vertex(0),edge.vertex(1));
                        out.f.push_back(a.f(x));
                    }
            }
        }
        const Matrix M = Head2MEGMat(geo,sq);
        c10::out_matrix(M,out);
        return out;
    }
    if (op==8) {   // Head2ECoGMat on the first boundary interface of domain <k>
        const size_t kd = r.n();
        if (kd>=geo.domains().size() || geo.domains()[kd].boundaries().empty()) throw Reader::Malformed();
        const Interface& itf = geo.domains()[kd].boundaries().front().interface();
        const Sensors el((dir+"/ecog.txt").c_str());
        const Matrix& positions = el.getPositions();
        out.z.push_back(ST_OK);
        c10::shape(geo,nullptr,out.z);
        out.z.push_back((ll)positions.nlin());
        c10::common_floats(geo,nullptr,out.f);
        for (unsigned i=0;i<positions.nlin();++i) {
            const Vect3 p(positions(i,0),positions(i,1),positions(i,2));
            Vect3 alphas;
            const auto& res = dist_point_interface(p,itf,alphas);
            const Triangle& t = std::get<1>(res);
            for (unsigned j=0;j<3;++j) { out.z.push_back(c10::vid(geo,t.vertex(j))); out.f.push_back(alphas(j)); }
        }
        const SparseMatrix Sm = Head2ECoGMat(geo,el,itf);
        const Matrix M(Sm);
        c10::out_matrix(M,out);
        return out;
    }
    if (op==1) {
        out.z.push_back(ST_OK);
        dump_shape(geo,out.z);
        out.f.push_back(K);
        dump_pos_areas(geo,out.f);
        for (const auto& mp : geo.communicating_mesh_pairs()) {
            out.f.push_back(geo.sigma(mp(0),mp(1))); out.f.push_back(geo.sigma_inv(mp(0),mp(1))); out.f.push_back(geo.indicator(mp(0),mp(1)));
        }
        for (const auto& mp : geo.communicating_mesh_pairs()) {
            kernel_S(integrator,mp(0),mp(1),out.f);
            kernel_D(integrator,mp(0),mp(1),out.f);
            if (&mp(0)!=&mp(1)) kernel_D(integrator,mp(1),mp(0),out.f);
        }
        try {
            const SymMatrix H = HeadMat(geo,integrator);
            out.z.push_back((ll)H.nlin());
            for (size_t k=0;k<H.size();++k) out.f.push_back(H.data()[k]);
        } catch (std::invalid_argument&) { out.z[0] = ST_ASSERT; out.z.push_back(-1); }   // the indexed geometry is still reported
        return out;
    }
    if (op==2) {
        const size_t pk = r.n(); const ll seed = r.z();
        if (pk>=geo.communicating_mesh_pairs().size()) throw Reader::Malformed();
        const auto& mp = geo.communicating_mesh_pairs()[pk];
        const unsigned np = geo.nb_parameters();
        // areas replaced by powers of two so that the divisions are exact
        unsigned tcount = 0;
        for (auto& m : geo.meshes()) for (auto& t : m.triangles()) { t.area() = std::ldexp(1.0,(int)((tcount*7+seed)%5)-2); ++tcount; }
        const bool same = &mp(0)==&mp(1);
        std::vector<double> tab((size_t)np*np);
        unsigned long long s = 88172645463325252ULL ^ (unsigned long long)(seed*2654435761LL+pk);
        auto next = [&s]() { s ^= s<<13; s ^= s>>7; s ^= s<<17; return (double)((ll)(s%19)-9); };
        for (unsigned i=0;i<np;++i) for (unsigned j=0;j<np;++j) tab[(size_t)i*np+j] = next();
        if (same) for (unsigned i=0;i<np;++i) for (unsigned j=0;j<i;++j) tab[(size_t)i*np+j] = tab[(size_t)j*np+i];
        const SynS S{np,&tab};
        const double coeff = (double)(1+(seed%3));
        SymMatrix M(np); M.set(0.0);
        if (same) { DiagonalBlock blk(mp(0),integrator); blk.N(coeff,S,M); }
        else      { NonDiagonalBlock blk(mp(0),mp(1),integrator); blk.N(coeff,S,M); }
        out.z.push_back(ST_OK);
        dump_shape(geo,out.z);
        out.z.push_back((ll)pk);
        out.z.push_back((ll)np);
        out.f.push_back(coeff);
        dump_pos_areas(geo,out.f);
        for (double x : tab) out.f.push_back(x);
        for (size_t k=0;k<M.size();++k) out.f.push_back(M.data()[k]);
        return out;
    }
    if (op==3) {
        const SymMatrix H = HeadMat(geo,integrator);
        const unsigned n = H.nlin();
        // which indices are potentials, which of them lie on an outermost mesh of a deflated part
        std::vector<char> ispot(n,0),defl(n,0);
        for (const auto& v : geo.vertices()) if (v.index()<n) ispot[v.index()] = 1;
        for (const auto& m : geo.meshes()) if (!m.isolated()) for (const auto& t : m.triangles()) if (t.index()<n) ispot[t.index()] = 0;
        for (const auto& part : geo.isolated_parts()) for (const auto& mp : part) if (mp->outermost())
            for (const auto& vp : mp->vertices()) if (vp->index()<n) defl[vp->index()] = 1;
        double worst = 0.0; ll npot = 0, ndefl = 0;
        for (unsigned i=0;i<n;++i) if (ispot[i]) {
            ++npot; if (defl[i]) { ++ndefl; continue; }
            double s = 0.0, a = 0.0;
            for (unsigned j=0;j<n;++j) if (ispot[j]) { s += H(i,j); a += std::fabs(H(i,j)); }
            if (a>0) worst = std::max(worst,std::fabs(s)/a);
        }
        Matrix A(H); Matrix U,V; SparseMatrix S;
        A.svd(U,S,V);
        double smax = 0.0, smin = 1e300;
        for (unsigned i=0;i<n;++i) { const double x = S(i,i); smax = std::max(smax,x); smin = std::min(smin,x); }
        // The inverse the way a user obtains it (both public routes), on the SAME object A afterwards:
        //   Ainv = A.inverse() [const];  A must be bitwise unchanged;  A*Ainv = I;   B = copy(A); B.invert(); A*B = I;  B == Ainv
        //   x = A.solveLin(b) (Vector, Matrix and Vector* forms): A unchanged, residuals.
        double resid = -1.0, resid_inplace = -1.0, routes_diff = -1.0, solve_res = -1.0, solve_err = -1.0; ll recv_changed = 0;
        if (smin>1e-10*smax) {
            const std::vector<double> snap(H.data(),H.data()+H.size());
            auto unchanged = [&]() { return std::memcmp(snap.data(),H.data(),snap.size()*sizeof(double))==0; };
            auto identity_gap = [&](const Matrix& P) { double g = 0.0; for (unsigned i=0;i<n;++i) for (unsigned j=0;j<n;++j) g = std::max(g,std::fabs(P(i,j)-(i==j ? 1.0 : 0.0))); return g; };
            const SymMatrix& cH = H;
            const SymMatrix Ainv = cH.inverse();
            if (!unchanged()) recv_changed |= 1;
            resid = identity_gap(H*Ainv);                      // the same object H, after the call
            SymMatrix Bi(n); for (size_t k=0;k<snap.size();++k) Bi.data()[k] = snap[k];
            Bi.invert();
            { SymMatrix A0(n); for (size_t k=0;k<snap.size();++k) A0.data()[k] = snap[k]; resid_inplace = identity_gap(A0*Bi); }
            double amax = 0.0; routes_diff = 0.0;
            for (size_t k=0;k<Ainv.size();++k) { amax = std::max(amax,std::fabs(Bi.data()[k])); routes_diff = std::max(routes_diff,std::fabs(Bi.data()[k]-Ainv.data()[k])); }
            routes_diff /= (amax>0 ? amax : 1.0);
            // solveLin against a known solution, original matrix rebuilt from the snapshot
            SymMatrix A1(n); for (size_t k=0;k<snap.size();++k) A1.data()[k] = snap[k];
            const std::vector<double> snap1(A1.data(),A1.data()+A1.size());
            Vector x0(n); for (unsigned i=0;i<n;++i) x0(i) = 1.0+(i%7)*0.25;
            const Vector b = A1*x0;
            const SymMatrix& cA1 = A1;
            const Vector x = cA1.solveLin(b);
            Matrix RB(n,2); for (unsigned i=0;i<n;++i) { RB(i,0) = b(i); RB(i,1) = 2.0*b(i); }
            const Matrix X2 = cA1.solveLin(RB);
            Vector bv[1] = { Vector(b,DEEP_COPY) }; A1.solveLin(bv,1);
            if (std::memcmp(snap1.data(),A1.data(),snap1.size()*sizeof(double))!=0) recv_changed |= 2;
            const Vector r1 = A1*x-b;
            double bn = 0.0, xn = 0.0; solve_res = 0.0; solve_err = 0.0;
            for (unsigned i=0;i<n;++i) { bn = std::max(bn,std::fabs(b(i))); xn = std::max(xn,std::fabs(x0(i))); }
            for (unsigned i=0;i<n;++i) {
                solve_res = std::max(solve_res,std::fabs(r1(i))/bn);
                solve_err = std::max(solve_err,std::max(std::fabs(x(i)-x0(i)),std::max(std::fabs(X2(i,0)-x0(i)),std::max(std::fabs(X2(i,1)-2.0*x0(i))/2.0,std::fabs(bv[0](i)-x0(i)))))/xn);
            }
        }
        // cavity walls (theorem cavity_wall_indicator_in_kernel): current barrier, not isolated, not deflated
        double hmax = 0.0; for (size_t k=0;k<H.size();++k) hmax = std::max(hmax,std::fabs(H.data()[k]));
        double cav = -1.0; ll ncav = 0;
        for (const auto& m : geo.meshes()) {
            if (!m.current_barrier() || m.isolated()) continue;
            bool deflated = false;
            for (const auto& part : geo.isolated_parts()) for (const auto& mp : part) if (mp==&m && m.outermost()) deflated = true;
            if (deflated) continue;
            ++ncav;
            for (unsigned i=0;i<n;++i) {
                double s = 0.0;
                for (const auto& vp : m.vertices()) if (vp->index()<n) s += H(i,vp->index());
                cav = std::max(cav,std::fabs(s)/hmax);
            }
        }
        ll nzero = 0;   // all-zero rows (unknowns nothing is ever written for)
        for (unsigned i=0;i<n;++i) { bool z = true; for (unsigned j=0;j<n && z;++j) z = (H(i,j)==0.0); if (z) ++nzero; }
        out.z = Wire{ST_OK,(ll)n,npot,ndefl,(ll)geo.isolated_parts().size(),(ll)geo.meshes().size(),ncav,recv_changed,nzero};
        out.f = { worst, smin, smax, resid, cav, resid_inplace, routes_diff, solve_res, solve_err };
        return out;
    }
    throw Reader::Malformed();
}

int main(int argc,char** argv) {
    if (argc<2) return 2;
    return run_cases_f(argv[1],dispatch);
}
