// Shared plumbing for the correspondence harnesses: case lines in, integer lines out.
#pragma once
#include <cstdio>
#include <cstdlib>
#include <cstring>
#include <cmath>
#include <string>
#include <vector>
#include <sstream>
#include <iostream>
#include <fstream>
#include <stdexcept>
#include <functional>

typedef long long ll;
typedef std::vector<ll> Wire;

struct Reader {
    const Wire& w; size_t p;
    Reader(const Wire& w_, size_t p0=0): w(w_), p(p0) {}
    struct Malformed {};
    ll z() { if (p>=w.size()) throw Malformed(); return w[p++]; }
    size_t n() { ll v = z(); if (v<0) throw Malformed(); return (size_t)v; }
    bool done() const { return p==w.size(); }
};

enum { ST_OK=0, ST_ASSERT=1, ST_MATHS=2, ST_OTHER=3 };

static inline void emit(const Wire& out) {
    std::string s;
    for (size_t k=0;k<out.size();++k) { if (k) s += ' '; s += std::to_string(out[k]); }
    s += '\n';
    fwrite(s.data(),1,s.size(),stdout);
}

// double that must be an exact integer (inputs are integers, ops are + - *)
static inline ll exact(double d) {
    if (!(std::fabs(d) < 9.0e15) || d != std::floor(d)) return (ll)0x7ffffffffffffff0LL; // marker: not an integer
    return (ll)d;
}

typedef std::function<Wire(Reader&)> Handler;

// silence the library's chatter on std::cerr / std::cout during cases
struct Silence {
    std::streambuf *o,*e; std::ostringstream sink;
    Silence() { o = std::cout.rdbuf(sink.rdbuf()); e = std::cerr.rdbuf(sink.rdbuf()); }
    ~Silence() { std::cout.rdbuf(o); std::cerr.rdbuf(e); }
};

static inline int run_cases(const char* path, const std::function<Wire(const std::string&,Reader&)>& dispatch) {
    std::ifstream in(path);
    if (!in) { fprintf(stderr,"cannot open %s\n",path); return 2; }
    std::string line;
    while (std::getline(in,line)) {
        std::istringstream ls(line);
        std::string comp; ls >> comp;
        Wire w; ll v; while (ls >> v) w.push_back(v);
        Wire out;
        try {
            Silence s;
            Reader r(w);
            out = dispatch(comp,r);
        } catch (Reader::Malformed&) { out = Wire{-1}; }
          catch (std::invalid_argument&) { out = Wire{ST_ASSERT}; }
          catch (std::exception&) { out = Wire{ST_OTHER}; }
          catch (...) { out = Wire{ST_OTHER}; }
        emit(out);
        fflush(stdout);
    }
    return 0;
}

// ---- float wire: "<comp> i1 i2 ... | x1 x2 ..."  ->  "o1 o2 ... | y1 y2 ..." (doubles as C99 hex, exact) ----
struct FReader {
    const std::vector<double>& w; size_t p;
    FReader(const std::vector<double>& w_): w(w_), p(0) {}
    double x() { if (p>=w.size()) throw Reader::Malformed(); return w[p++]; }
    bool done() const { return p==w.size(); }
};
struct FWire { Wire z; std::vector<double> f; };

static inline void emit_f(const FWire& out) {
    std::string s;
    for (size_t k=0;k<out.z.size();++k) { if (k) s += ' '; s += std::to_string(out.z[k]); }
    s += " |";
    char b[64];
    for (double d : out.f) { snprintf(b,sizeof b," %a",d); s += b; }
    s += '\n';
    fwrite(s.data(),1,s.size(),stdout);
}

static inline int run_cases_f(const char* path, const std::function<FWire(const std::string&,Reader&,FReader&)>& dispatch) {
    std::ifstream in(path);
    if (!in) { fprintf(stderr,"cannot open %s\n",path); return 2; }
    std::string line;
    while (std::getline(in,line)) {
        std::istringstream ls(line);
        std::string comp; ls >> comp;
        Wire w; std::vector<double> f; std::string tok; bool fl=false;
        while (ls >> tok) {
            if (tok=="|") { fl=true; continue; }
            if (fl) f.push_back(strtod(tok.c_str(),nullptr)); else w.push_back(atoll(tok.c_str()));
        }
        FWire out;
        try {
            Silence s;
            Reader r(w); FReader fr(f);
            out = dispatch(comp,r,fr);
        } catch (Reader::Malformed&) { out = FWire{Wire{-1},{}}; }
          catch (std::invalid_argument&) { out = FWire{Wire{ST_ASSERT},{}}; }
          catch (std::exception&) { out = FWire{Wire{ST_OTHER},{}}; }
          catch (...) { out = FWire{Wire{ST_OTHER},{}}; }
        emit_f(out);
        fflush(stdout);
    }
    return 0;
}
