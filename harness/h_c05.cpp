// C05 harness: (1) dumps the index data the loop model needs, (2) logs the real footprints of the template loops of
// operators.h through recording container types (region = call of GOMP_parallel, iteration = thread number when the
// team is at least as large as the trip count: libgomp's default static schedule then gives thread k iteration k),
// (3) differential runs of the real assembly functions under different thread counts, (4) exception propagation.
#include "wire.h"
#include <omp.h>
#include <dlfcn.h>
#include <atomic>
#include <cstdint>
#include <mutex>
#include <execinfo.h>
#include <signal.h>
#include <unistd.h>
#include <fcntl.h>

#define private public
#define protected public
#include <operators.h>
#undef private
#undef protected
#include <assemble.h>
#ifndef C05_STATIC_BUILD
// Details::deflate is a template living in a .cpp: include it so that it can be instantiated with a recording container
// (the functions it defines again are identical to the library's; not done when the library objects are linked statically)
#include <../src/assembleHeadMat.cpp>
#define C05_HAVE_DEFLATE 1
#endif
#include <sensors.h>
#include <geometry.h>
#include <mesh.h>
#include <matrix.h>
#include <symmatrix.h>
#include <vector.h>

using namespace OpenMEEG;

// ------------------------------------------------------------------ region counter: interpose libgomp's entry point
static std::atomic<long> g_region(0);
static std::atomic<long> g_maxteam(0);
extern "C" void GOMP_parallel(void (*fn)(void*),void* data,unsigned num_threads,unsigned flags) {
    typedef void (*real_t)(void (*)(void*),void*,unsigned,unsigned);
    static real_t real = (real_t) dlsym(RTLD_NEXT,"GOMP_parallel");
    ++g_region;
    real(fn,data,num_threads,flags);
}

// ------------------------------------------------------------------ recording containers
struct Rec { long region; int thread; int container; long idx; int rw; };
static const int MAXT = 1024;
static std::vector<Rec> g_log[MAXT];
static inline void logacc(int container,long idx,int rw) {
    const int t = omp_get_thread_num();
    if (t>=MAXT) abort();
    g_log[t].push_back(Rec{g_region.load(),omp_in_parallel() ? t : -1,container,idx,rw});
}
static void clear_log() { for (auto& v : g_log) v.clear(); }

struct Proxy {
    int container; long idx; double* p;
    Proxy& operator=(const double x)  { logacc(container,idx,1); *p = x; return *this; }
    Proxy& operator+=(const double x) { logacc(container,idx,0); logacc(container,idx,1); *p += x; return *this; }
    operator double() const { logacc(container,idx,0); return *p; }
};

// same addressing as SymMatrix::operator() (the translator checks that text)
struct RecSym {
    int id; unsigned n; long off; std::vector<double> d;
    RecSym(int id_,unsigned n_,long off_=0): id(id_),n(n_),off(off_),d(size_t(n_)*(n_+1)/2,0.0) {}
    long addr(unsigned i,unsigned j) const {
        const long a = long(i)-off, b = long(j)-off;
        if (a<0 || b<0 || a>=long(n) || b>=long(n)) throw std::invalid_argument("RecSym index");
        return (a<=b) ? a+b*(b+1)/2 : b+a*(a+1)/2;
    }
    Proxy operator()(unsigned i,unsigned j) { const long k = addr(i,j); return Proxy{id,k,&d[k]}; }
    double operator()(unsigned i,unsigned j) const { const long k = addr(i,j); logacc(id,k,0); return d[k]; }
};
// same addressing as Matrix::operator()
struct RecMat {
    int id; unsigned nl,nc; std::vector<double> d;
    RecMat(int id_,unsigned nl_,unsigned nc_): id(id_),nl(nl_),nc(nc_),d(size_t(nl_)*nc_,0.0) {}
    long addr(unsigned i,unsigned j) const {
        if (i>=nl || j>=nc) throw std::invalid_argument("RecMat index");
        return long(i)+long(nl)*j;
    }
    Proxy operator()(unsigned i,unsigned j) { const long k = addr(i,j); return Proxy{id,k,&d[k]}; }
    double operator()(unsigned i,unsigned j) const { const long k = addr(i,j); logacc(id,k,0); return d[k]; }
};

// ------------------------------------------------------------------ models on disk (written by the runner): m<k>/model.geom ...
static std::string mdir(ll k) { return "m"+std::to_string(k)+"/"; }
struct Loaded {
    Geometry geo;
    Loaded(ll k): geo(mdir(k)+"model.geom",mdir(k)+"model.cond") {}
};

static const Mesh& mesh_at(const Geometry& geo,size_t i) {
    size_t k = 0;
    for (const auto& m : geo.meshes()) { if (k==i) return m; ++k; }
    throw Reader::Malformed();
}

static int status_of_current() {
    try { throw; }
    catch (std::invalid_argument&) { return ST_ASSERT; }
    catch (OpenMEEG::Exception&) { return ST_MATHS; }
    catch (maths::Exception&) { return ST_MATHS; }
    catch (std::exception&) { return ST_OTHER; }
    catch (...) { return ST_OTHER; }
}

// ------------------------------------------------------------------ op 0: dump indices
static FWire dump(Reader& r) {
    Loaded L(r.n());
    FWire out; out.z.push_back(ST_OK);
    out.z.push_back((ll) L.geo.nb_parameters());
    out.z.push_back((ll) L.geo.nb_current_barrier_triangles());
    size_t nm = 0; for (const auto& m : L.geo.meshes()) { (void) m; ++nm; }
    out.z.push_back((ll) nm);
    for (const auto& m : L.geo.meshes()) {
        out.z.push_back(m.outermost()); out.z.push_back(m.current_barrier()); out.z.push_back(m.isolated());
        out.z.push_back((ll) m.vertices().size());
        for (const auto& vp : m.vertices()) out.z.push_back((ll)(int) vp->index());
        out.z.push_back((ll) m.triangles().size());
        for (const auto& t : m.triangles()) {
            out.z.push_back((ll)(int) t.index());
            for (unsigned i=0;i<3;++i) out.z.push_back((ll)(int) t.vertex(i).index());
        }
        // adjacency as the code sees it: m.triangles(V) for each vertex of the mesh
        for (const auto& vp : m.vertices()) {
            const auto& ts = m.triangles(*vp);
            out.z.push_back((ll) ts.size());
            for (const auto& tp : ts) out.z.push_back((ll)(int) tp->index());
        }
    }
    size_t np = 0;
    for (const auto& mp : L.geo.communicating_mesh_pairs()) { (void) mp; ++np; }
    out.z.push_back((ll) np);
    for (const auto& mp : L.geo.communicating_mesh_pairs()) {
        size_t a=0,b=0,k=0;
        for (const auto& m : L.geo.meshes()) { if (&m==&mp(0)) a=k; if (&m==&mp(1)) b=k; ++k; }
        out.z.push_back((ll) a); out.z.push_back((ll) b);
    }
    // the order in which deflate() visits meshes: for each isolated part, the meshes flagged outermost (flags as the
    // real Geometry computed them -- how they are computed is C11's subject, not this model's)
    std::vector<ll> dord;
    for (const auto& part : L.geo.isolated_parts())
        for (const auto& meshptr : part)
            if (meshptr->outermost()) {
                size_t k = 0; for (const auto& m : L.geo.meshes()) { if (&m==meshptr) dord.push_back((ll) k); ++k; }
            }
    out.z.push_back((ll) dord.size()); out.z.insert(out.z.end(),dord.begin(),dord.end());
    return out;
}

// ------------------------------------------------------------------ op 1: footprints of the template loops
// loop: 1 D(m1,m2)  2 Dstar(m1,m2) 3 S diag(m1)  4 S nondiag(m1,m2)  5 N diag(m1) alias  6 N diag separate S
//       7 N nondiag alias  8 N nondiag separate S ; kind: 0 RecSym target, 1 RecMat target
static FWire footprints(Reader& r) {
    Loaded L(r.n()); const ll loop = r.z(); const size_t i1 = r.n(), i2 = r.n(); const ll kind = r.z(); const int team = (int) r.n();
    const Mesh& m1 = mesh_at(L.geo,i1); const Mesh& m2 = mesh_at(L.geo,i2);
    const unsigned n = L.geo.nb_parameters();
    omp_set_dynamic(0); omp_set_num_threads(team);
    clear_log(); g_region = 0;
    const Integrator integ(3,0,0.005);
    RecSym S(1,n), Ssep(2,n); RecMat M(3,n,n);
    int st = ST_OK;
    try {
        if (loop==1 || loop==2) {
            NonDiagonalBlock blk(m1,m2,integ);
            if (kind==0) { if (loop==1) blk.D(1.0,S); else blk.Dstar(1.0,S); }
            else         { if (loop==1) blk.D(1.0,M); else blk.Dstar(1.0,M); }
        } else if (loop==3) {
            DiagonalBlock blk(m1,integ);
            if (kind==0) blk.S(1.0,S); else blk.S(1.0,M);
        } else if (loop==4) {
            NonDiagonalBlock blk(m1,m2,integ);
            if (kind==0) blk.S(1.0,S); else blk.S(1.0,M);
        } else if (loop==5) { DiagonalBlock blk(m1,integ); blk.N(1.0,S,S); }
        else if (loop==6) { DiagonalBlock blk(m1,integ); if (kind==0) blk.N(1.0,Ssep,S); else blk.N(1.0,Ssep,M); }
        else if (loop==7) { NonDiagonalBlock blk(m1,m2,integ); blk.N(1.0,S,S); }
        else if (loop==8) { NonDiagonalBlock blk(m1,m2,integ); if (kind==0) blk.N(1.0,Ssep,S); else blk.N(1.0,Ssep,M); }
#ifdef C05_HAVE_DEFLATE
        else if (loop==9) { for (unsigned i=0;i<n;++i) S.d[S.addr(i,i)] = 1.0+i; Details::deflate(S,L.geo); }
#endif
        else throw Reader::Malformed();
    } catch (Reader::Malformed&) { throw; } catch (...) { st = status_of_current(); }
    FWire out; out.z.push_back(st); out.z.push_back(g_region.load());
    for (int t=0;t<MAXT;++t)
        for (const Rec& x : g_log[t]) { out.z.push_back(x.region); out.z.push_back(x.thread); out.z.push_back(x.container); out.z.push_back(x.idx); out.z.push_back(x.rw); }
    clear_log();
    return out;
}

// ------------------------------------------------------------------ op 2/4: differential runs of the assembly functions
struct Bits { std::vector<double> v; };
static uint64_t fnv(const std::vector<double>& v) {
    uint64_t h = 1469598103934665603ULL;
    const unsigned char* p = (const unsigned char*) v.data();
    for (size_t k=0;k<v.size()*sizeof(double);++k) { h ^= p[k]; h *= 1099511628211ULL; }
    return h;
}
static std::vector<double> flat(const Matrix& m) { std::vector<double> v(m.nlin()*m.ncol()); for (size_t j=0;j<m.ncol();++j) for (size_t i=0;i<m.nlin();++i) v[i+m.nlin()*j] = m(i,j); return v; }
static std::vector<double> flat(const SymMatrix& m) { std::vector<double> v; for (size_t j=0;j<m.nlin();++j) for (size_t i=0;i<=j;++i) v.push_back(m(i,j)); return v; }

// f: 1 HeadMat 2 DipSourceMat(adaptive) 3 SurfSourceMat 4 Head2MEGMat 5 EITSourceMat 6 SurfSource2MEGMat 7 DipSourceMat(no adapt)
//    8 DipSource2MEGMat 9 Surf2VolMat  10 DipSource2InternalPotMat
static std::vector<double> compute(ll k,ll f) {
    const std::string d = mdir(k);
    switch (f) {
        case 1: { Loaded L(k); return flat(HeadMat(L.geo)); }
        case 2: { Loaded L(k); Matrix dip(d+"dip.txt"); return flat(DipSourceMat(L.geo,dip,Integrator(3,10,0.001),"")); }
        case 3: { Loaded L(k); Mesh src(d+"src.tri"); return flat(SurfSourceMat(L.geo,src)); }
        case 4: { Loaded L(k); Sensors s((d+"squids.txt").c_str()); return flat(Head2MEGMat(L.geo,s)); }
        case 5: { Loaded L(k); Sensors s((d+"eit.txt").c_str(),L.geo); return flat(EITSourceMat(L.geo,s)); }
        case 6: { Mesh src(d+"src.tri"); Sensors s((d+"squids.txt").c_str()); return flat(SurfSource2MEGMat(src,s)); }
        case 7: { Loaded L(k); Matrix dip(d+"dip.txt"); return flat(DipSourceMat(L.geo,dip,Integrator(3,0,0.001),"")); }
        case 8: { Matrix dip(d+"dip.txt"); Sensors s((d+"squids.txt").c_str()); return flat(DipSource2MEGMat(dip,s)); }
        case 9: { Loaded L(k); Matrix pts(d+"pts.txt"); return flat(Surf2VolMat(L.geo,pts)); }
        case 10:{ Loaded L(k); Matrix dip(d+"dip.txt"); Matrix pts(d+"pts.txt"); return flat(DipSource2InternalPotMat(L.geo,dip,pts)); }
    }
    throw Reader::Malformed();
}

static FWire differential(Reader& r) {
    const ll k = r.n(), f = r.z(); const size_t nt = r.n();
    std::vector<int> threads; for (size_t i=0;i<nt;++i) threads.push_back((int) r.n());
    FWire out; std::vector<double> ref; bool have = false;
    omp_set_dynamic(0);
    for (int t : threads) {
        omp_set_num_threads(t);
        int st = ST_OK; std::vector<double> v;
        try { v = compute(k,f); } catch (Reader::Malformed&) { throw; } catch (...) { st = status_of_current(); }
        ll ndiff = 0, first = -1; double maxd = 0, scale = 0;
        if (st==ST_OK) {
            if (!have) { ref = v; have = true; }
            if (v.size()!=ref.size()) { ndiff = -1; }
            else for (size_t i=0;i<v.size();++i) {
                scale = std::max(scale,std::fabs(ref[i]));
                if (std::memcmp(&v[i],&ref[i],sizeof(double))!=0) { ++ndiff; if (first<0) first = (ll) i; const double dd = std::fabs(v[i]-ref[i]); if (!(dd<=maxd)) maxd = dd; }
            }
        }
        const uint64_t h = fnv(v);
        out.z.push_back(st); out.z.push_back((ll) v.size()); out.z.push_back(ndiff); out.z.push_back(first);
        out.z.push_back((ll)(h & 0x7fffffff)); out.z.push_back((ll)((h>>31) & 0x7fffffff));
        out.f.push_back(maxd); out.f.push_back(scale);
    }
    return out;
}

// hammer one function: many repetitions at a fixed team size, count results that differ from the 1-thread reference
static FWire hammer(Reader& r) {
    const ll k = r.n(), f = r.z(); const int team = (int) r.n(); const size_t reps = r.n();
    omp_set_dynamic(0); omp_set_num_threads(1);
    const std::vector<double> ref = compute(k,f);
    omp_set_num_threads(team);
    ll differing_runs = 0, first = -1; double maxd = 0, scale = 0;
    for (double x : ref) scale = std::max(scale,std::fabs(x));
    for (size_t rep=0;rep<reps;++rep) {
        const std::vector<double> v = compute(k,f);
        bool diff = v.size()!=ref.size();
        for (size_t i=0;!diff && i<v.size();++i) if (std::memcmp(&v[i],&ref[i],sizeof(double))!=0) { diff = true; if (first<0) first = (ll) i; }
        if (diff) { ++differing_runs; for (size_t i=0;i<std::min(v.size(),ref.size());++i) maxd = std::max(maxd,std::fabs(v[i]-ref[i])); }
    }
    FWire out; out.z = {ST_OK,(ll) ref.size(),differing_runs,first}; out.f = {maxd,scale};
    return out;
}

// ------------------------------------------------------------------ op 3: an exception raised inside a parallel region
// Every trigger makes om_assert fire inside a region, in some iterations only, because the caller's target is too
// small for the unknown indices of the mesh:
//   1 DiagonalBlock::S   2 DiagonalBlock::D   3 DiagonalBlock::N      (mesh 0, templates of operators.h)
//   5 NonDiagonalBlock::S 6 NonDiagonalBlock::N 7 NonDiagonalBlock::D (meshes 0,1)
//   8 operatorFerguson   9 operatorDipolePotDer  10 operatorDipolePot  (library functions, caller-supplied Matrix / Vector)
//   4 a public assembly function `f` on a model prepared to fail
// Output per thread count: status, regions entered, number of "Assertion ... failed" lines Assert() wrote to std::cerr
// (the direct observation that the error WAS raised: distinguishes a swallowed exception from a stale trigger).
#include <fcntl.h>
#include <unistd.h>
static ll count_assertions(const char* path) {
    std::ifstream in(path); std::string l; ll n = 0;
    while (std::getline(in,l)) if (l.find("Assertion `")!=std::string::npos) ++n;
    return n;
}
static FWire exceptions(Reader& r) {
    const ll k = r.n(), trig = r.z(), f = r.z(); const size_t nt = r.n();
    std::vector<int> threads; for (size_t i=0;i<nt;++i) threads.push_back((int) r.n());
    FWire out; omp_set_dynamic(0);
    for (int t : threads) {
        omp_set_num_threads(t);
        int st = ST_OK; ll regions = 0;
        std::cerr.flush(); fflush(stderr);
        const int saved = dup(2); const int fd = open("assert.log",O_RDWR|O_CREAT|O_TRUNC,0600);
        if (fd>=0) { dup2(fd,2); close(fd); }
        try {
            g_region = 0;
            if (trig==4) { compute(k,f); }
            else {
                Loaded L(k); const Mesh& m = mesh_at(L.geo,0); const Integrator integ(3,0,0.005);
                const unsigned n = L.geo.nb_parameters();
                const unsigned first_t = m.triangles().front().index();
                SymMatrix small(first_t+m.triangles().size()/2);    // rows of the second half of the triangles do not exist
                small.set(0.0);
                Matrix dm(1,6); dm(0,0)=0.1; dm(0,1)=0.05; dm(0,2)=0.2; dm(0,3)=1; dm(0,4)=0; dm(0,5)=0;
                const Dipole dip(0,dm);
                if (trig==1) { DiagonalBlock blk(m,integ); blk.S(1.0,small); }
                else if (trig==2) { DiagonalBlock blk(m,integ); blk.D(1.0,small); }
                else if (trig==3) { DiagonalBlock blk(m,integ); SymMatrix tiny(m.vertices().size()/2); tiny.set(0.0);
                                    SymMatrix Sb(n); Sb.set(0.0); blk.N(1.0,Sb,tiny); }
                else if (trig==5 || trig==6 || trig==7) {
                    const Mesh& m1 = mesh_at(L.geo,1);
                    NonDiagonalBlock blk(m,m1,integ);
                    SymMatrix small1(m1.triangles().front().index()+m1.triangles().size()/2); small1.set(0.0);
                    if (trig==5) blk.S(1.0,small1);
                    else if (trig==7) blk.D(1.0,small);
                    else { SymMatrix Sb(n); Sb.set(0.0); SymMatrix tiny(m1.vertices().front()->index()+m1.vertices().size()/2); tiny.set(0.0); blk.N(1.0,Sb,tiny); }
                }
                else if (trig==8) { Matrix mat(6,m.vertices().size()/2); mat.set(0.0); operatorFerguson(Vect3(2.0,1.5,1.0),m,mat,3,1.0); }
                else if (trig==9) { Vector rhs(m.vertices().size()/2); rhs.set(0.0); operatorDipolePotDer(dip,m,rhs,1.0,Integrator(3,0,0.001)); }
                else if (trig==10) { Vector rhs(first_t+m.triangles().size()/2); rhs.set(0.0); operatorDipolePot(dip,m,rhs,1.0,Integrator(3,0,0.001)); }
                else throw Reader::Malformed();
            }
        } catch (Reader::Malformed&) { std::cerr.flush(); dup2(saved,2); close(saved); throw; } catch (...) { st = status_of_current(); }
        std::cerr.flush(); fflush(stderr); dup2(saved,2); close(saved);
        regions = g_region.load();
        out.z.push_back(st); out.z.push_back(regions); out.z.push_back(count_assertions("assert.log"));
    }
    return out;
}

static int g_errfd = 2;
static void on_segv(int sig) {
    void* bt[64]; const int n = backtrace(bt,64);
    const char msg[] = "h_c05: fatal signal, backtrace:\n"; (void) !write(g_errfd,msg,sizeof msg-1);
    backtrace_symbols_fd(bt,n,g_errfd);
    _exit(128+sig);
}

// Like run_cases_f of wire.h, but std::cerr is NOT redirected into a std::ostringstream: om_assert's Assert() writes to
// std::cerr from inside parallel regions, which is fine for the synchronised standard stream and a data race (heap
// corruption) on a string buffer.  The chatter is dropped at file-descriptor level instead; std::cout (written by the
// library outside parallel regions only) still goes to a string sink because stdout carries the results.
static int run_cases_mt(const char* path,const std::function<FWire(const std::string&,Reader&,FReader&)>& dispatch) {
    std::ifstream in(path);
    if (!in) { fprintf(stderr,"cannot open %s\n",path); return 2; }
    g_errfd = dup(2);
    const int devnull = open("/dev/null",O_WRONLY);
    if (devnull>=0) { dup2(devnull,2); close(devnull); }
    std::string line;
    while (std::getline(in,line)) {
        std::istringstream ls(line);
        std::string comp; ls >> comp;
        Wire w; std::vector<double> f; std::string tok; bool fl=false;
        while (ls >> tok) {
            if (tok=="|") { fl=true; continue; }
            if (fl) f.push_back(strtod(tok.c_str(),nullptr)); else w.push_back(atoll(tok.c_str()));
        }
        FWire out;
        std::ostringstream sink; std::streambuf* o = std::cout.rdbuf(sink.rdbuf());
        try {
            Reader r(w); FReader fr(f);
            out = dispatch(comp,r,fr);
        } catch (Reader::Malformed&) { out = FWire{Wire{-1},{}}; }
          catch (std::invalid_argument&) { out = FWire{Wire{ST_ASSERT},{}}; }
          catch (std::exception&) { out = FWire{Wire{ST_OTHER},{}}; }
          catch (...) { out = FWire{Wire{ST_OTHER},{}}; }
        std::cout.rdbuf(o);
        emit_f(out);
        fflush(stdout);
    }
    return 0;
}

// ------------------------------------------------------------------ op 5: hook H1 -- write footprint of ONE iteration of the
// three loops of operators.cpp, which take concrete Matrix / Vector (no recording type possible): the hook OM_VERIF_ITER(loop,index,outer) is
// the first statement of the loop body; the harness's implementation raises for every iteration of the selected
// loop except the selected one, so only that iteration's statements run; the entries of the target whose bits changed
// (two fills: 0 and 1) are its write footprint.
struct SkipIteration {};
static int g_sel_loop = 0; static unsigned g_sel_index = 0; static std::atomic<long> g_hook_calls(0);
extern "C" void om_verif_iter(int loop,unsigned index) {
    ++g_hook_calls;
    if (loop==g_sel_loop && index!=g_sel_index) throw SkipIteration();
}
template <typename RUN>
static void changed(RUN run,std::vector<ll>& out) {       // run(fill) -> flat result
    std::vector<char> ch;
    for (double fill : {0.0,1.0}) {
        const std::vector<double> v = run(fill);
        if (ch.empty()) ch.assign(v.size(),0);
        for (size_t i=0;i<v.size();++i) if (std::memcmp(&v[i],&fill,sizeof(double))!=0) ch[i] = 1;
    }
    std::vector<ll> idx; for (size_t i=0;i<ch.size();++i) if (ch[i]) idx.push_back((ll) i);
    out.push_back((ll) idx.size()); out.insert(out.end(),idx.begin(),idx.end());
}
static FWire hooked(Reader& r,FReader& fr) {
    Loaded L(r.n()); const int loop = (int) r.z(); const size_t mi = r.n(); const int team = (int) r.n();
    const Mesh& m = mesh_at(L.geo,mi);
    const unsigned n = L.geo.nb_parameters();
    omp_set_dynamic(0); omp_set_num_threads(team);
    const Integrator integ(3,0,0.001);
    Matrix dm(1,6); for (unsigned c=0;c<6;++c) dm(0,c) = fr.x();
    const Dipole dip(0,dm); const Vect3 x(dm(0,0)*3+2.0,dm(0,1)*3+1.5,dm(0,2)*3+1.0);
    FWire out; out.z.push_back(ST_OK); g_hook_calls = 0;
    auto guarded = [](const std::function<void()>& f) { try { f(); } catch (SkipIteration&) {} };
    g_sel_loop = loop;
    if (loop==1) {
        size_t p = 0;
        for (const auto& vp : m.vertices()) {
            g_sel_index = vp->index();
            out.z.push_back(0); out.z.push_back((ll) p++);
            changed([&](double fill){ Matrix mat(6,n); mat.set(fill); guarded([&]{ operatorFerguson(x,m,mat,3,1.0); }); return flat(mat); },out.z);
        }
    } else if (loop==2 || loop==3) {
        size_t p = 0;
        for (const auto& t : m.triangles()) {
            g_sel_index = t.index();
            out.z.push_back(0); out.z.push_back((ll) p++);
            changed([&](double fill){ Vector rhs(n); rhs.set(fill);
                                      guarded([&]{ if (loop==2) operatorDipolePotDer(dip,m,rhs,1.0,integ); else operatorDipolePot(dip,m,rhs,1.0,integ); });
                                      std::vector<double> v(n); for (unsigned i=0;i<n;++i) v[i] = rhs(i); return v; },out.z);
        }
    } else throw Reader::Malformed();
    g_sel_loop = 0;
    out.z.insert(out.z.begin()+1,g_hook_calls.load());
    return out;
}

int main(int argc,char** argv) {
    signal(SIGSEGV,on_segv); signal(SIGBUS,on_segv); signal(SIGABRT,on_segv);
    if (argc<2) { fprintf(stderr,"usage: h_c05 cases.txt\n"); return 2; }
    return run_cases_mt(argv[1],[](const std::string& comp,Reader& r,FReader& fr) -> FWire {
        if (comp!="c05") throw Reader::Malformed();
        const ll op = r.z();
        switch (op) {
            case 0: return dump(r);
            case 1: return footprints(r);
            case 2: return differential(r);
            case 3: return exceptions(r);
            case 4: return hammer(r);
            case 5: return hooked(r,fr);
        }
        throw Reader::Malformed();
    });
}
