// C12 harness: Triangle::intersects, Mesh::has_self_intersection, Mesh::intersection,
// Geometry::selfCheck / check / check_inner of the current tree.  Integer wire (coordinates n/den).
#include <vector.h>
#include <matrix.h>
#include <vertex.h>
#include <triangle.h>
#include <mesh.h>
#include <interface.h>
#include <geometry.h>
#include "wire.h"
#include <memory>
#include <sys/stat.h>

using namespace OpenMEEG;

static Vect3 getV(Reader& r,double den) { double x=(double)r.z()/den, y=(double)r.z()/den, z=(double)r.z()/den; return Vect3(x,y,z); }

static void readVerts(Reader& r,double den,std::vector<Vertex>& V) {
    size_t nv=r.n(); V.reserve(nv);
    for (size_t k=0;k<nv;++k) { Vect3 v=getV(r,den); V.push_back(Vertex(v,(unsigned)k)); }
}
static std::unique_ptr<Mesh> readMesh(Reader& r,std::vector<Vertex>& V) {
    size_t nt=r.n();
    std::unique_ptr<Mesh> m(new Mesh());
    for (size_t t=0;t<nt;++t) {
        size_t a=r.n(), b=r.n(), c=r.n();
        if (a>=V.size()||b>=V.size()||c>=V.size()) throw Reader::Malformed();
        m->triangles().push_back(Triangle(&V[a],&V[b],&V[c],(unsigned)t));
    }
    return m;
}
// The cached per-triangle normals (Triangle::normal(), written by Mesh::update) are not an input of the checks: the answer is
// a function of the current vertex positions.  mode 0: never computed (zero vectors); 1: those of the current positions;
// 2: stale - those of an earlier pose of the same mesh (every vertex has since been moved in memory by the rigid map
// (x,y,z) -> (z,-x,y)+(3,1,2), as a caller editing geo.vertices() does, with no update() in between)  [seeded C12-17]
static void cacheNormals(Mesh& m,unsigned mode) {
    auto pose = [&](const Vertex& v) { return (mode==2) ? Vect3(v.z()+3,-v.x()+1,v.y()+2) : Vect3(v.x(),v.y(),v.z()); };
    if (mode==0) return;
    for (auto& t : m.triangles()) {
        const Vect3 a=pose(t.vertex(0)), b=pose(t.vertex(1)), c=pose(t.vertex(2));
        Vect3 n=crossprod(b-a,c-a); const double l=n.norm();
        if (l>0) n=n*(1.0/l);
        t.normal()=n;
    }
}
static bool exists(const std::string& p) { struct stat st; return stat(p.c_str(),&st)==0; }

static Wire c12(Reader& r) {
    ll op=r.z();
    if (op==20) {
        double den=(double)r.z();
        Vertex a(getV(r,den)), b(getV(r,den)), c(getV(r,den)), d(getV(r,den)), e(getV(r,den)), f(getV(r,den));
        Triangle T1(a,b,c), T2(d,e,f);
        return Wire{ST_OK,T1.intersects(T2)?1:0};
    }
    if (op==10) {
        double den=(double)r.z();
        std::vector<Vertex> V; readVerts(r,den,V);
        auto m=readMesh(r,V);
        cacheNormals(*m,(unsigned)(V.size()%3));
        return Wire{ST_OK,m->has_self_intersection()?1:0};
    }
    if (op==11) {
        double den=(double)r.z();
        std::vector<Vertex> V; readVerts(r,den,V);
        auto m1=readMesh(r,V); auto m2=readMesh(r,V);
        cacheNormals(*m1,(unsigned)(V.size()%3)); cacheNormals(*m2,(unsigned)((V.size()/3)%3));
        return Wire{ST_OK,m1->intersection(*m2)?1:0};
    }
    if (op==13) {
        // geometry level: files g<gid>/model.geom, model.cond, optional extra.tri and dip.txt
        ll gid=r.z(); const bool usecond = r.done() ? true : (r.z()!=0);     // second integer 0: load without conductivities
        std::string dir="g"+std::to_string(gid)+"/";
        std::unique_ptr<Geometry> gp(usecond ? new Geometry(dir+"model.geom",dir+"model.cond") : new Geometry(dir+"model.geom"));
        Geometry& geo=*gp;
        Wire o{ST_OK,geo.is_nested()?1:0,geo.selfCheck()?1:0};
        if (exists(dir+"extra.tri")) { Mesh m(dir+"extra.tri"); o.push_back(geo.check(m)?1:0); } else o.push_back(2);
        if (exists(dir+"dip.txt")) {
            Matrix dip(std::string(dir+"dip.txt").c_str());
            o.push_back(geo.check_inner(dip)?1:0);
            o.push_back((ll)dip.nlin());
            if (geo.is_nested()) {
                const Interface& I=geo.innermost_interface();
                for (unsigned i=0;i<dip.nlin();++i) o.push_back(I.contains(Vect3(dip(i,0),dip(i,1),dip(i,2)))?1:0);
            } else for (unsigned i=0;i<dip.nlin();++i) o.push_back(0);
        } else { o.push_back(2); o.push_back(0); }
        return o;
    }
    if (op==16) {
        // repeated verdicts on one loaded geometry (thread-count runs): mode 0 selfCheck, mode 1 check(extra.tri)
        ll gid=r.z(); size_t reps=r.n(); ll mode=r.z();
        std::string dir="g"+std::to_string(gid)+"/";
        Geometry geo(dir+"model.geom",dir+"model.cond");
        std::unique_ptr<Mesh> em; if (mode==1) em.reset(new Mesh(dir+"extra.tri"));
        ll ok=0;
        for (size_t k=0;k<reps;++k) ok += (mode==1 ? geo.check(*em) : geo.selfCheck()) ? 1 : 0;
        return Wire{ST_OK,ok};
    }
    throw Reader::Malformed();
}

int main(int argc,char** argv) {
    if (argc<2) return 2;
    return run_cases(argv[1],[](const std::string& comp,Reader& r) -> Wire {
        if (comp=="c12") return c12(r);
        throw Reader::Malformed();
    });
}
