// C02 / C03 harness: the whole forward pipeline of the current /repo tree, in memory, on a model written to files
// by lib/models.py (17 significant digits), plus the integration kernels called directly.
//
// Case lines (one result line each):
//   gains <dir> [what]      every gain kind (what = comma list out of eeg,ecog,meg,ip,eit,ssm,dec; default all)
//   sweep <dir> <what> k1 k2 ...  one Geometry object, Domain::set_conductivity(k_i*sigma) in sequence, gains after each (names "<gain>@<i>")
//   inplace <refdir> <moveddir> <what> R(9) t(3) s   geometry of refdir moved in place + Mesh::update(false), sources/sensors of moveddir
//   ops   <dir>             the operator matrices the gains are made of (bisection: gain kind -> operator -> entry)
//   k <op> | x1 x2 ...      one kernel call (float wire), see kern()
// Result of gains/ops:  "<name> <status> <nlin> <ncol> <hex doubles, column major> ; <name> ..."   status as in wire.h
// Files in <dir>: model.geom model.cond dipoles.txt eeg.txt ecog.txt squids.txt points.txt eit.txt source.tri
// (a missing optional file skips the gains that need it); ecog.txt's companion ecog_interface.txt holds the interface name.
#include "wire.h"
#include <map>
#include <set>
#include <sys/stat.h>
#include <unistd.h>
#include <fcntl.h>
#include <assemble.h>
#include <gain.h>
#include <sensors.h>
#include <geometry.h>
#include <mesh.h>
#include <danielsson.h>
#include <operators.h>
#include <analytics.h>
#include <logger.h>
#include <lapacke.h>

namespace OpenMEEG { double dist_point_triangle(const Vect3& p,const Triangle& triangle,Vect3& alphas,bool& inside); }
using namespace OpenMEEG;

static bool exists(const std::string& p) { struct stat st; return stat(p.c_str(),&st)==0; }

struct Out {
    std::string s;
    std::string suffix;       // appended to every matrix name (conductivity sweep: "@<step>")
    void head(const char* name,int status,size_t nl,size_t nc) {
        if (!s.empty()) s += " ; ";
        s += name; s += suffix; s += ' '; s += std::to_string(status); s += ' '; s += std::to_string(nl); s += ' '; s += std::to_string(nc);
    }
    void val(double d) { char b[40]; snprintf(b,sizeof b," %a",d); s += b; }
    void mat(const char* name,const Matrix& M) {
        head(name,ST_OK,M.nlin(),M.ncol());
        for (size_t j=0;j<M.ncol();++j) for (size_t i=0;i<M.nlin();++i) val(M(i,j));
    }
    void sym(const char* name,const SymMatrix& M) {
        head(name,ST_OK,M.nlin(),M.nlin());
        for (size_t j=0;j<M.nlin();++j) for (size_t i=0;i<M.nlin();++i) val(M(i,j));
    }
    void sparse(const char* name,const SparseMatrix& M) {
        Matrix D(M.nlin(),M.ncol()); D.set(0.0);
        for (SparseMatrix::const_iterator it=M.begin(); it!=M.end(); ++it) D(it->first.first,it->first.second) = it->second;
        mat(name,D);
    }
    void fail(const char* name,int st) { head(name,st,0,0); }
};

template <typename F> static void guarded(Out& o,const char* name,F f) {
    try { f(); }
    catch (std::invalid_argument& e) { o.fail(name,ST_ASSERT); if (getenv("H_C02_DEBUG")) fprintf(stderr,"%s: %s\n",name,e.what()); }
    catch (OpenMEEG::maths::Exception& e) { o.fail(name,ST_MATHS); if (getenv("H_C02_DEBUG")) fprintf(stderr,"%s: %s\n",name,e.what()); }
    catch (std::exception& e) { o.fail(name,ST_OTHER); if (getenv("H_C02_DEBUG")) fprintf(stderr,"%s: %s\n",name,e.what()); }
    catch (...) { o.fail(name,ST_OTHER); }
}

static std::string slurp_word(const std::string& p) { std::ifstream f(p); std::string w; f >> w; return w; }

static bool want(const std::string& what,const char* k) {
    if (what.empty() || what=="all") return true;
    std::string w = ","+what+",";
    return w.find(std::string(",")+k+",")!=std::string::npos;
}

// frame-sensitive decisions: domain of each dipole / point, nearest triangle+mesh of each electrode, selfCheck, nesting
static void decisions(Out& o,const std::string& dir,const Geometry& geo) {
    guarded(o,"dec_domains",[&]{
        std::vector<double> v;
        for (const char* fn : {"dipoles.txt","points.txt"}) {
            if (!exists(dir+"/"+fn)) continue;
            const Matrix P((dir+"/"+fn).c_str());
            for (unsigned i=0;i<P.nlin();++i) {
                const Vect3 p(P(i,0),P(i,1),P(i,2));
                double id = -1; unsigned k = 0;
                try {
                    const Domain& d = geo.domain(p);
                    for (const auto& dd : geo.domains()) { if (&dd==&d) id = k; ++k; }
                } catch (...) { id = -2; }
                v.push_back(id);
            }
        }
        Matrix M(v.size(),1); for (size_t i=0;i<v.size();++i) M(i,0) = v[i];
        o.mat("dec_domains",M);
    });
    guarded(o,"dec_nearest",[&]{
        if (!exists(dir+"/eeg.txt")) return;
        const Sensors el((dir+"/eeg.txt").c_str());
        const Matrix& P = el.getPositions();
        Matrix M(P.nlin(),8);
        for (unsigned i=0;i<P.nlin();++i) {
            const Vect3 p(P(i,0),P(i,1),P(i,2)); Vect3 al;
            const auto& r = dist_point_geom(p,geo,al);
            unsigned mi = 0, k = 0;
            for (const auto& m : geo.meshes()) { if (&m==&std::get<2>(r)) mi = k; ++k; }
            M(i,0) = std::get<1>(r).index(); M(i,1) = mi; M(i,2) = std::get<0>(r);   // distance: degree 1 in length
            M(i,3) = al(0); M(i,4) = al(1); M(i,5) = al(2);
            M(i,6) = &std::get<1>(r)-&std::get<2>(r).triangles().front();      // position of the triangle in its mesh
            M(i,7) = std::get<2>(r).triangles().size();
        }
        o.mat("dec_nearest",M);
    });
    guarded(o,"dec_geom",[&]{
        Matrix M(3,1);
        M(0,0) = geo.selfCheck() ? 1 : 0;
        M(1,0) = geo.is_nested() ? 1 : 0;
        M(2,0) = geo.nb_parameters()-geo.nb_current_barrier_triangles();
        o.mat("dec_geom",M);
    });
}

static void compute(Out& o,const std::string& dir,const std::string& what,const bool ops,const Geometry& geo);

static std::unique_ptr<Geometry> load_geometry(Out& o,const std::string& dir) {
    const std::string g = dir+"/model.geom", c = dir+"/model.cond";
    std::unique_ptr<Geometry> geop;
    try { geop.reset(new Geometry(g,c)); }
    catch (std::invalid_argument&) { o.fail("geometry",ST_ASSERT); geop.reset(); }
    catch (std::exception&) { o.fail("geometry",ST_OTHER); geop.reset(); }
    catch (...) { o.fail("geometry",ST_OTHER); geop.reset(); }
    return geop;
}

static std::string run_model(const std::string& dir,const std::string& what,const bool ops) {
    Out o;
    std::unique_ptr<Geometry> geop = load_geometry(o,dir);
    if (geop) compute(o,dir,what,ops,*geop);
    return o.s;
}

// Conductivity sweep the way an API user does it: ONE Geometry object, Domain::set_conductivity(k*sigma0) for the
// factors given in sequence, everything reassembled after each change.  Matrix names carry the suffix "@<step>".
static std::string run_sweep(const std::string& dir,const std::string& what,const std::vector<double>& ks) {
    Out o;
    std::unique_ptr<Geometry> geop = load_geometry(o,dir);
    if (!geop) return o.s;
    Geometry& geo = *geop;
    std::vector<double> sigma0;
    for (const auto& d : geo.domains()) sigma0.push_back(d.conductivity());
    for (size_t step=0; step<ks.size(); ++step) {
        size_t i = 0;
        for (auto& d : geo.domains()) d.set_conductivity(ks[step]*sigma0[i++]);
        o.suffix = "@"+std::to_string(step);
        compute(o,dir,what,false,geo);
    }
    return o.s;
}

// The moved / rescaled problem produced through the API instead of through files: the geometry of <refdir> is loaded, the
// vertices of the loaded Geometry are moved IN PLACE (x -> s*(R x)+t), Mesh::update(false) is called on every mesh (the
// documented refresh of what depends on vertex positions only: areas, normals), and every gain is computed with the
// sources and sensors of <moveddir> (already in the new frame).
static std::string run_inplace(const std::string& refdir,const std::string& moveddir,const std::string& what,const std::vector<double>& m) {
    Out o;
    if (m.size()!=13) { o.fail("geometry",ST_OTHER); return o.s; }
    std::unique_ptr<Geometry> geop = load_geometry(o,refdir);
    if (!geop) return o.s;
    Geometry& geo = *geop;
    bool ok = false;
    guarded(o,"inplace_move",[&]{
        for (auto& v : geo.vertices()) {
            const double x = v.x(), y = v.y(), z = v.z();
            v.x() = m[12]*(m[0]*x+m[1]*y+m[2]*z)+m[9];
            v.y() = m[12]*(m[3]*x+m[4]*y+m[5]*z)+m[10];
            v.z() = m[12]*(m[6]*x+m[7]*y+m[8]*z)+m[11];
        }
        for (auto& mesh : geo.meshes())
            mesh.update(false);
        ok = true;
    });
    if (ok) compute(o,moveddir,what,false,geo);
    return o.s;
}

static void compute(Out& o,const std::string& dir,const std::string& what,const bool ops,const Geometry& geo) {
    const bool has_dip = exists(dir+"/dipoles.txt");
    if (want(what,"dec")) decisions(o,dir,geo);

    if (ops)
        guarded(o,"maps",[&]{
            // unknown index -> geometry: vertices (index,x,y,z) and triangles (index,mesh,v0,v1,v2,current_barrier)
            Matrix V(geo.vertices().size(),4); unsigned k = 0;
            for (const auto& v : geo.vertices()) { V(k,0) = v.index(); V(k,1) = v.x(); V(k,2) = v.y(); V(k,3) = v.z(); ++k; }
            o.mat("map_vertices",V);
            size_t nt = 0; for (const auto& m : geo.meshes()) nt += m.triangles().size();
            Matrix T(nt,6); k = 0; unsigned mi = 0;
            for (const auto& m : geo.meshes()) {
                for (const auto& t : m.triangles()) {
                    T(k,0) = t.index(); T(k,1) = mi; T(k,2) = t.vertex(0).index(); T(k,3) = t.vertex(1).index(); T(k,4) = t.vertex(2).index();
                    T(k,5) = m.current_barrier() ? 1 : 0; ++k;
                }
                ++mi;
            }
            o.mat("map_triangles",T);
        });

    SymMatrix HM; bool hm_ok = false;
    guarded(o,"HeadMat",[&]{ HM = HeadMat(geo); if (ops) o.sym("HeadMat",HM); hm_ok = true; });
    if (!hm_ok) return;
    guarded(o,"cond",[&]{
        // eigenvalue range of the head matrix (symmetric): the conditioning the gains inherit (reported, and used to
        // recognise a numerically singular system)
        const size_t n = HM.nlin();
        std::vector<double> A(n*n), w(n);
        for (size_t j=0;j<n;++j) for (size_t i=0;i<n;++i) A[i+n*j] = HM(i,j);
        const int info = LAPACKE_dsyev(LAPACK_COL_MAJOR,'N','U',(int)n,A.data(),(int)n,w.data());
        double lo = 1e300, hi = 0;
        for (double x : w) { lo = std::min(lo,std::fabs(x)); hi = std::max(hi,std::fabs(x)); }
        Matrix M(3,1); M(0,0) = lo; M(1,0) = hi; M(2,0) = info; o.mat("cond",M);
    });
    SymMatrix HMi; bool inv_ok = false;
    guarded(o,"HeadMatInv",[&]{ HMi = SymMatrix(HM,DEEP_COPY); HMi.invert(); if (ops) o.sym("HeadMatInv",HMi); inv_ok = true; });
    if (!inv_ok) return;

    Matrix dipoles, DSM; bool dsm_ok = false;
    if (has_dip)
        guarded(o,"DipSourceMat",[&]{
            dipoles = Matrix((dir+"/dipoles.txt").c_str());
            DSM = DipSourceMat(geo,dipoles,Integrator(3,10,0.001),"");   // as om_assemble -DSM
            if (ops) o.mat("DipSourceMat",DSM);
            dsm_ok = true;
        });

    if (want(what,"eeg") && exists(dir+"/eeg.txt"))
        guarded(o,"GainEEG",[&]{
            const Sensors el((dir+"/eeg.txt").c_str());
            const SparseMatrix& H2E = Head2EEGMat(geo,el);
            if (ops) o.sparse("Head2EEGMat",H2E);
            if (dsm_ok) { const GainEEG G(HMi,DSM,H2E); o.mat("GainEEG",G); }
        });
    if (want(what,"ecog") && exists(dir+"/ecog.txt"))
        guarded(o,"GainECoG",[&]{
            const Sensors el((dir+"/ecog.txt").c_str());
            const std::string iname = slurp_word(dir+"/ecog_interface.txt");
            const SparseMatrix& H2E = Head2ECoGMat(geo,el,geo.interface(iname));
            if (ops) o.sparse("Head2ECoGMat",H2E);
            if (dsm_ok) { const GainEEG G(HMi,DSM,H2E); o.mat("GainECoG",G); }
        });
    if (want(what,"meg") && exists(dir+"/squids.txt"))
        guarded(o,"GainMEG",[&]{
            const Sensors sq((dir+"/squids.txt").c_str());
            const Matrix& H2M = Head2MEGMat(geo,sq);
            if (ops) o.mat("Head2MEGMat",H2M);
            if (dsm_ok) {
                const Matrix& DS2M = DipSource2MEGMat(dipoles,sq);
                if (ops) o.mat("DipSource2MEGMat",DS2M);
                const GainMEG G(HMi,DSM,H2M,DS2M); o.mat("GainMEG",G);
            }
        });
    if (want(what,"ip") && exists(dir+"/points.txt"))
        guarded(o,"GainInternalPot",[&]{
            const Matrix pts((dir+"/points.txt").c_str());
            const Matrix& S2V = Surf2VolMat(geo,pts);
            if (ops) o.mat("Surf2VolMat",S2V);
            if (dsm_ok) {
                const Matrix& DS2IP = DipSource2InternalPotMat(geo,dipoles,pts,"");
                if (ops) o.mat("DipSource2InternalPotMat",DS2IP);
                const GainInternalPot G(HMi,DSM,S2V,DS2IP); o.mat("GainInternalPot",G);
            }
        });
    if (want(what,"eit") && exists(dir+"/eit.txt"))
        guarded(o,"GainEIT",[&]{
            const Sensors inj((dir+"/eit.txt").c_str(),geo);
            const Matrix& ESM = EITSourceMat(geo,inj);
            if (ops) o.mat("EITSourceMat",ESM);
            // potential at the same electrodes for a current injected at each of them (om_gain -EEG with the EIT source)
            const Sensors el((dir+"/eit_pos.txt").c_str());
            const SparseMatrix& H2E = Head2EEGMat(geo,el);
            const GainEEG G(HMi,ESM,H2E); o.mat("GainEIT",G);
            if (exists(dir+"/points.txt")) {
                const Matrix pts((dir+"/points.txt").c_str());
                const GainEITInternalPot GI(HMi,ESM,Surf2VolMat(geo,pts)); o.mat("GainEITInternalPot",GI);
            }
        });
    if (want(what,"ssm") && exists(dir+"/source.tri"))
        guarded(o,"GainSurfSource",[&]{
            Mesh src((dir+"/source.tri").c_str());
            const Matrix& SSM = SurfSourceMat(geo,src);
            if (ops) o.mat("SurfSourceMat",SSM);
            if (exists(dir+"/eeg.txt")) {
                const Sensors el((dir+"/eeg.txt").c_str());
                const GainEEG G(HMi,SSM,Head2EEGMat(geo,el)); o.mat("GainSurfSourceEEG",G);
            }
            if (exists(dir+"/squids.txt")) {
                const Sensors sq((dir+"/squids.txt").c_str());
                const Matrix& SS2M = SurfSource2MEGMat(src,sq);
                if (ops) o.mat("SurfSource2MEGMat",SS2M);
                const GainMEG G(HMi,SSM,Head2MEGMat(geo,sq),SS2M); o.mat("GainSurfSourceMEG",G);
            }
        });
    return;
}

// ------------------------------------------------------------------ kernels (float wire)
static Vect3 v3(FReader& f) { double x=f.x(), y=f.x(), z=f.x(); return Vect3(x,y,z); }
static void push(FWire& o,const Vect3& v) { o.f.push_back(v.x()); o.f.push_back(v.y()); o.f.push_back(v.z()); }

struct Tri {
    Vertex a,b,c; Triangle T;
    Tri(const Vect3& p0,const Vect3& p1,const Vect3& p2): a(p0,0),b(p1,1),c(p2,2),T(&a,&b,&c,0) {
        Vect3 nd = crossprod(T.vertex(0)-T.vertex(1),T.vertex(0)-T.vertex(2));    // as Mesh::update_triangles
        T.area() = nd.norm()/2.0; T.normal() = nd.normalize();
    }
};

static FWire kern(Reader& r,FReader& f) {
    const ll op = r.z();
    FWire o; o.z.push_back(ST_OK);
    switch (op) {
    case 1: { Vect3 x=v3(f),a=v3(f),b=v3(f),c=v3(f); o.f.push_back(x.solid_angle(a,b,c)); break; }
    case 2: { Vect3 a=v3(f),b=v3(f),c=v3(f),x=v3(f); Tri t(a,b,c); o.f.push_back(analyticS(t.T).f(x)); break; }
    case 3: { Vect3 a=v3(f),b=v3(f),c=v3(f),x=v3(f); o.f.push_back(analyticS(a,b,c).f(x)); break; }
    case 4: { Vect3 a=v3(f),b=v3(f),c=v3(f),x=v3(f); Tri t(a,b,c); push(o,analyticD3(t.T).f(x)); break; }
    case 5: { Vect3 r0=v3(f),q=v3(f),x=v3(f); o.f.push_back(Dipole(r0,q).potential(x)); break; }
    case 6: { Vect3 r0=v3(f),q=v3(f),a=v3(f),b=v3(f),c=v3(f),x=v3(f); Tri t(a,b,c); Dipole d(r0,q); push(o,analyticDipPotDer(d,t.T).f(x)); break; }
    case 7: {   // one triangle's term of Details::operatorFerguson for vertex V of triangle (V,A,B)
        Vect3 V=v3(f),A=v3(f),B=v3(f),x=v3(f); Tri t(V,A,B);
        const Vect3& AB = (A-B)/(2*t.T.area()); const analyticS s(V,A,B); push(o,AB*s.f(x)); break; }
    case 8: {   // fixed-rule / adaptive integration of the dipole potential and of analyticS::f over a triangle
        const ll levels = r.z();
        Vect3 r0=v3(f),q=v3(f),a=v3(f),b=v3(f),c=v3(f); Tri t(a,b,c); Dipole d(r0,q);
        const Integrator I(3,(unsigned)levels,0.001);
        o.f.push_back(I.integrate([&](const Vect3& p){ return d.potential(p); },t.T));
        const analyticDipPotDer dpd(d,t.T);
        push(o,I.integrate([&](const Vect3& p){ return dpd.f(p); },t.T));
        break; }
    case 9: {   // S and D3 integrated over a second triangle (one head-matrix entry's kernel work)
        Vect3 a=v3(f),b=v3(f),c=v3(f),a2=v3(f),b2=v3(f),c2=v3(f); Tri t(a,b,c), t2(a2,b2,c2);
        const Integrator I(3,0,0.005);
        const analyticS s(t.T); const analyticD3 d3(t.T);
        o.f.push_back(I.integrate([&](const Vect3& p){ return s.f(p); },t2.T));
        push(o,I.integrate([&](const Vect3& p){ return d3.f(p); },t2.T));
        break; }
    case 10: {  // closest point on a triangle
        Vect3 a=v3(f),b=v3(f),c=v3(f),p=v3(f); Tri t(a,b,c); Vect3 al; bool inside;
        const double d = dist_point_triangle(p,t.T,al,inside);
        o.z.push_back(inside ? 1 : 0); o.f.push_back(d); push(o,al); break; }
    default: throw Reader::Malformed();
    }
    return o;
}

// Everything the library prints while a case runs (std::cout, printf, puts ...) goes to /dev/null at the file-descriptor
// level, so that the only bytes on the real stdout are the result lines (one per case).
struct FdSilence {
    static int real_fd() { static int fd = dup(1); return fd; }
    static int null_fd() { static int fd = open("/dev/null",O_WRONLY); return fd; }
    FdSilence()  { real_fd(); fflush(stdout); std::cout.flush(); dup2(null_fd(),1); }
    ~FdSilence() { fflush(stdout); std::cout.flush(); dup2(real_fd(),1); }
};

int main(int argc,char** argv) {
    if (argc<2) { fprintf(stderr,"usage: h_c02 cases.txt\n"); return 2; }
    std::ifstream in(argv[1]);
    if (!in) { fprintf(stderr,"cannot open %s\n",argv[1]); return 2; }
    std::string line;
    while (std::getline(in,line)) {
        std::istringstream ls(line);
        std::string cmd; ls >> cmd;
        if (cmd=="gains" || cmd=="ops" || cmd=="sweep" || cmd=="inplace") {
            std::string dir, dir2, what; ls >> dir;
            if (cmd=="inplace") ls >> dir2;
            ls >> what;
            std::vector<double> ks;
            if (cmd=="sweep" || cmd=="inplace") { std::string t; while (ls >> t) ks.push_back(strtod(t.c_str(),nullptr)); }
            std::string res;
            // watchdog: a case that hangs (e.g. the random-probe loop of is_mesh_orientations_coherent when every solid
            // angle is zeroed) kills the process; the runner attributes the crash to this case and restarts
            alarm(getenv("H_C02_ALARM") ? atoi(getenv("H_C02_ALARM")) : 60);
            {
                FdSilence fs;
                Silence s;
                try { res = (cmd=="sweep") ? run_sweep(dir,what,ks) : (cmd=="inplace") ? run_inplace(dir,dir2,what,ks) : run_model(dir,what,cmd=="ops"); }
                catch (...) { res = "crash 3 0 0"; }
            }
            alarm(0);
            res += '\n';
            fwrite(res.data(),1,res.size(),stdout);
        } else if (cmd=="k") {
            Wire w; std::vector<double> f; std::string tok; bool fl = false;
            while (ls >> tok) {
                if (tok=="|") { fl = true; continue; }
                if (fl) f.push_back(strtod(tok.c_str(),nullptr)); else w.push_back(atoll(tok.c_str()));
            }
            FWire out;
            try { FdSilence fs; Silence s; Reader r(w); FReader fr(f); out = kern(r,fr); }
            catch (Reader::Malformed&) { out = FWire{Wire{-1},{}}; }
            catch (std::invalid_argument&) { out = FWire{Wire{ST_ASSERT},{}}; }
            catch (...) { out = FWire{Wire{ST_OTHER},{}}; }
            emit_f(out);
        } else {
            fputs("-1\n",stdout);
        }
        fflush(stdout);
    }
    return 0;
}
