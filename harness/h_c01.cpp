// C01 harness: the real forward pipeline of the current /repo tree, in memory, on a generated sphere model.
//   case   : c01 <id> <ndip> <nelec> <nmeg> | dipoles(6 each: position, moment)  electrodes(3 each)  squids(6 each: position, orientation)
//            geometry/conductivities are read from  m<id>.geom / m<id>.cond  in the working directory (written by checks/c01.py at 17 digits)
//   result : <status> <nelec> <ndip> <nmeg> <headmat size> | GainEEG (nelec x ndip, row major)  GainMEG (nmeg x ndip, row major)
// Call sequence = apps/assemble.cpp + apps/minverser.cpp + apps/gain.cpp (GainEEG / GainMEG of gain.h).
#include <geometry.h>
#include <sensors.h>
#include <assemble.h>
#include <gain.h>
#include <matrix.h>
#include <symmatrix.h>
#include <sparse_matrix.h>
#include <sys/resource.h>
#include "wire.h"

using namespace OpenMEEG;

static FWire c01(Reader& r,FReader& f) {
    const ll id = r.z();
    const size_t ndip = r.n(), nelec = r.n(), nmeg = r.n();
    Matrix dipoles(ndip,6);
    for (size_t i=0;i<ndip;++i) for (unsigned k=0;k<6;++k) dipoles(i,k) = f.x();
    Matrix epos(nelec,3);
    for (size_t i=0;i<nelec;++i) for (unsigned k=0;k<3;++k) epos(i,k) = f.x();
    Matrix mpos(nmeg,3), mori(nmeg,3);
    for (size_t i=0;i<nmeg;++i) { for (unsigned k=0;k<3;++k) mpos(i,k) = f.x(); for (unsigned k=0;k<3;++k) mori(i,k) = f.x(); }
    if (!r.done() || !f.done()) throw Reader::Malformed();

    const std::string stem = "m"+std::to_string(id);
    const Geometry geo(stem+".geom",stem+".cond");

    Strings enames, mnames;
    for (size_t i=0;i<nelec;++i) enames.push_back("E"+std::to_string(i));
    for (size_t i=0;i<nmeg;++i)  mnames.push_back("M"+std::to_string(i));

    SymMatrix HM = HeadMat(geo);                      // om_assemble -HM
    const size_t hmsize = HM.nlin();
    HM.invert();                                      // om_minverser
    const Matrix dsm = DipSourceMat(geo,dipoles,Integrator(3,10,0.001),"");   // om_assemble -DSM (adaptive, as the tool)
    FWire out; out.z = Wire{ST_OK,(ll)nelec,(ll)ndip,(ll)nmeg,(ll)hmsize};
    if (nelec>0) {
        Vector ew(nelec), er(nelec); ew.set(1.0); er.set(0.0);
        const Sensors electrodes(enames,epos,Matrix(),ew,er);
        const SparseMatrix h2em = Head2EEGMat(geo,electrodes);                 // om_assemble -H2EM
        const GainEEG G(HM,dsm,h2em);                                         // om_gain -EEG
        if (G.nlin()!=nelec || G.ncol()!=ndip) throw std::runtime_error("GainEEG shape");
        for (size_t i=0;i<nelec;++i) for (size_t j=0;j<ndip;++j) out.f.push_back(G(i,j));
    }
    if (nmeg>0) {
        Vector mw(nmeg), mr(nmeg); mw.set(1.0); mr.set(0.0);
        const Sensors squids(mnames,mpos,mori,mw,mr);
        const Matrix h2mm  = Head2MEGMat(geo,squids);                          // om_assemble -H2MM
        const Matrix ds2mm = DipSource2MEGMat(dipoles,squids);                 // om_assemble -DS2MM
        const GainMEG G(HM,dsm,h2mm,ds2mm);                                   // om_gain -MEG
        if (G.nlin()!=nmeg || G.ncol()!=ndip) throw std::runtime_error("GainMEG shape");
        for (size_t i=0;i<nmeg;++i) for (size_t j=0;j<ndip;++j) out.f.push_back(G(i,j));
    }
    return out;
}

// closed-form pieces: c01p <id> <ndip> <npts> <nmeg> | dipoles points squids  ->  DipSource2MEGMat (nmeg x ndip) then
// DipSource2InternalPotMat at the points (npts x ndip; all points must lie in the dipoles' domain)
static FWire c01p(Reader& r,FReader& f) {
    const ll id = r.z();
    const size_t ndip = r.n(), npts = r.n(), nmeg = r.n();
    Matrix dipoles(ndip,6);
    for (size_t i=0;i<ndip;++i) for (unsigned k=0;k<6;++k) dipoles(i,k) = f.x();
    Matrix pts(npts,3);
    for (size_t i=0;i<npts;++i) for (unsigned k=0;k<3;++k) pts(i,k) = f.x();
    Matrix mpos(nmeg,3), mori(nmeg,3);
    for (size_t i=0;i<nmeg;++i) { for (unsigned k=0;k<3;++k) mpos(i,k) = f.x(); for (unsigned k=0;k<3;++k) mori(i,k) = f.x(); }
    if (!r.done() || !f.done()) throw Reader::Malformed();
    const std::string stem = "m"+std::to_string(id);
    const Geometry geo(stem+".geom",stem+".cond");
    Strings mnames;
    for (size_t i=0;i<nmeg;++i)  mnames.push_back("M"+std::to_string(i));
    Vector mw(nmeg), mr(nmeg); mw.set(1.0); mr.set(0.0);
    const Sensors squids(mnames,mpos,mori,mw,mr);
    const Matrix ds2mm = DipSource2MEGMat(dipoles,squids);
    const Matrix ds2ip = DipSource2InternalPotMat(geo,dipoles,pts,"");
    FWire out; out.z = Wire{ST_OK,(ll)ds2ip.nlin(),(ll)ndip,(ll)nmeg};
    for (size_t i=0;i<nmeg;++i) for (size_t j=0;j<ndip;++j) out.f.push_back(ds2mm(i,j));
    for (size_t i=0;i<ds2ip.nlin();++i) for (size_t j=0;j<ndip;++j) out.f.push_back(ds2ip(i,j));
    return out;
}

int main(int argc,char** argv) {
    if (argc<2) return 2;
    struct rlimit rl; rl.rlim_cur=rl.rlim_max=(rlim_t)12<<30; setrlimit(RLIMIT_AS,&rl);
    return run_cases_f(argv[1],[&](const std::string& comp,Reader& r,FReader& f)->FWire { if (comp=="c01") return c01(r,f); if (comp=="c01p") return c01p(r,f); return FWire{Wire{-2},{}}; });
}
