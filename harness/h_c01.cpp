// C01 harness: the real forward pipeline of the current /repo tree, in memory, on a generated sphere model.
//   case   : c01 <id> <ndip> <nelec> <nmeg> [<api>] | dipoles(6 each: position, moment)  electrodes(3 each)  squids(6 each: position, orientation)
//            geometry/conductivities are read from  m<id>.geom / m<id>.cond  in the working directory (written by checks/c01.py at 17 digits)
//   result : <status> <nelec> <ndip> <nmeg> <headmat size> <mask of modified Gain* operands> | GainEEG (nelec x ndip, row major)  GainMEG (nmeg x ndip, row major)
// Call sequence = apps/assemble.cpp + apps/minverser.cpp + apps/gain.cpp (GainEEG / GainMEG of gain.h).
#include <geometry.h>
#include <sensors.h>
#include <assemble.h>
#include <gain.h>
#include <matrix.h>
#include <symmatrix.h>
#include <sparse_matrix.h>
#include <sys/resource.h>
#include "wire.h"

using namespace OpenMEEG;

// bitwise snapshots of the operands handed to the Gain* constructors: they are inputs and must come back unchanged
template <typename T> static std::vector<double> snap(const T& x) { return std::vector<double>(x.data(),x.data()+x.size()); }
template <typename T> static bool same(const T& x,const std::vector<double>& s) {
    return x.size()==s.size() && (s.empty() || memcmp(x.data(),s.data(),s.size()*sizeof(double))==0);
}
struct SpEntry { size_t i,j; double v; };
static std::vector<SpEntry> snapsp(const SparseMatrix& m) { std::vector<SpEntry> r; for (auto it=m.begin();it!=m.end();++it) r.push_back({it->first.first,it->first.second,it->second}); return r; }
static bool samesp(const SparseMatrix& m,const std::vector<SpEntry>& s) {
    if (m.size()!=s.size()) return false;
    size_t k=0;
    for (auto it=m.begin();it!=m.end();++it,++k)
        if (it->first.first!=s[k].i || it->first.second!=s[k].j || memcmp(&it->second,&s[k].v,sizeof(double))!=0) return false;
    return true;
}

static FWire c01(Reader& r,FReader& f) {
    const ll id = r.z();
    const size_t ndip = r.n(), nelec = r.n(), nmeg = r.n();
    Matrix dipoles(ndip,6);
    for (size_t i=0;i<ndip;++i) for (unsigned k=0;k<6;++k) dipoles(i,k) = f.x();
    Matrix epos(nelec,3);
    for (size_t i=0;i<nelec;++i) for (unsigned k=0;k<3;++k) epos(i,k) = f.x();
    Matrix mpos(nmeg,3), mori(nmeg,3);
    for (size_t i=0;i<nmeg;++i) { for (unsigned k=0;k<3;++k) mpos(i,k) = f.x(); for (unsigned k=0;k<3;++k) mori(i,k) = f.x(); }
    const ll api = r.done() ? 0 : r.z();            // optional 5th integer: 0 = invert() once (tools), 1 = inverse() per gain (API)
    if (!r.done() || !f.done()) throw Reader::Malformed();

    const std::string stem = "m"+std::to_string(id);
    const Geometry geo(stem+".geom",stem+".cond");

    Strings enames, mnames;
    for (size_t i=0;i<nelec;++i) enames.push_back("E"+std::to_string(i));
    for (size_t i=0;i<nmeg;++i)  mnames.push_back("M"+std::to_string(i));

    SymMatrix HM = HeadMat(geo);                      // om_assemble -HM
    const size_t hmsize = HM.nlin();
    const Matrix dsm = DipSourceMat(geo,dipoles,Integrator(3,10,0.001),"");   // om_assemble -DSM (adaptive, as the tool)
    FWire out; out.z = Wire{ST_OK,(ll)nelec,(ll)ndip,(ll)nmeg,(ll)hmsize,0};   // last: bit mask of operands that were modified
    ll dirty = 0;
    const auto sdsm = snap(dsm);
    if (api==0) {
        // the sequence of the command line tools: the head matrix is inverted in place once (om_minverser)
        HM.invert();
        const auto sHM = snap(HM);
        if (nelec>0) {
            Vector ew(nelec), er(nelec); ew.set(1.0); er.set(0.0);
            const Sensors electrodes(enames,epos,Matrix(),ew,er);
            const SparseMatrix h2em = Head2EEGMat(geo,electrodes);                 // om_assemble -H2EM
            const auto sh2em = snapsp(h2em);
            const GainEEG G(HM,dsm,h2em);                                         // om_gain -EEG
            if (G.nlin()!=nelec || G.ncol()!=ndip) throw std::runtime_error("GainEEG shape");
            for (size_t i=0;i<nelec;++i) for (size_t j=0;j<ndip;++j) out.f.push_back(G(i,j));
            if (!same(HM,sHM)) dirty |= 1; if (!same(dsm,sdsm)) dirty |= 2; if (!samesp(h2em,sh2em)) dirty |= 4;
        }
        if (nmeg>0) {
            Vector mw(nmeg), mr(nmeg); mw.set(1.0); mr.set(0.0);
            const Sensors squids(mnames,mpos,mori,mw,mr);
            const Matrix h2mm  = Head2MEGMat(geo,squids);                          // om_assemble -H2MM
            const Matrix ds2mm = DipSource2MEGMat(dipoles,squids);                 // om_assemble -DS2MM
            const auto sh2mm = snap(h2mm); const auto sds2mm = snap(ds2mm);
            const GainMEG G(HM,dsm,h2mm,ds2mm);                                   // om_gain -MEG
            if (G.nlin()!=nmeg || G.ncol()!=ndip) throw std::runtime_error("GainMEG shape");
            for (size_t i=0;i<nmeg;++i) for (size_t j=0;j<ndip;++j) out.f.push_back(G(i,j));
            if (!same(HM,sHM)) dirty |= 1; if (!same(dsm,sdsm)) dirty |= 2; if (!same(h2mm,sh2mm)) dirty |= 8; if (!same(ds2mm,sds2mm)) dirty |= 16;
        }
    } else {
        // the sequence of a program written against the API (python wrapper style): the head matrix object is kept and its
        // inverse is taken with the const method inverse() each time a gain is needed - EEG first, then MEG, same object
        const auto sHM = snap(HM);
        if (nelec>0) {
            Vector ew(nelec), er(nelec); ew.set(1.0); er.set(0.0);
            const Sensors electrodes(enames,epos,Matrix(),ew,er);
            const SparseMatrix h2em = Head2EEGMat(geo,electrodes);
            const GainEEG G(HM.inverse(),dsm,h2em);
            if (!same(HM,sHM)) dirty |= 32;                                        // the const inverse() changed its receiver
            if (G.nlin()!=nelec || G.ncol()!=ndip) throw std::runtime_error("GainEEG shape");
            for (size_t i=0;i<nelec;++i) for (size_t j=0;j<ndip;++j) out.f.push_back(G(i,j));
        }
        if (nmeg>0) {
            Vector mw(nmeg), mr(nmeg); mw.set(1.0); mr.set(0.0);
            const Sensors squids(mnames,mpos,mori,mw,mr);
            const Matrix h2mm  = Head2MEGMat(geo,squids);
            const Matrix ds2mm = DipSource2MEGMat(dipoles,squids);
            const GainMEG G(HM.inverse(),dsm,h2mm,ds2mm);
            if (!same(HM,sHM)) dirty |= 32;
            if (G.nlin()!=nmeg || G.ncol()!=ndip) throw std::runtime_error("GainMEG shape");
            for (size_t i=0;i<nmeg;++i) for (size_t j=0;j<ndip;++j) out.f.push_back(G(i,j));
        }
        if (!same(dsm,sdsm)) dirty |= 2;
    }
    out.z[5] = dirty;
    return out;
}

// conductivity sweep, the way a user runs it: c01s <nmodels> <id_1> ... <id_k> <ndip> <nelec> <nmeg> | dipoles electrodes squids
// The source / sensor operators that do not depend on the head model (DipSource2MEGMat) are assembled ONCE and the same objects
// are handed to GainMEG for every model (same geometry, different conductivities).  Output: status k ndip nelec nmeg dirtymask |
// for each model: GainEEG (nelec x ndip) then GainMEG (nmeg x ndip).
static FWire c01s(Reader& r,FReader& f) {
    const size_t k = r.n(); std::vector<ll> ids; for (size_t m=0;m<k;++m) ids.push_back(r.z());
    const size_t ndip = r.n(), nelec = r.n(), nmeg = r.n();
    Matrix dipoles(ndip,6);
    for (size_t i=0;i<ndip;++i) for (unsigned c=0;c<6;++c) dipoles(i,c) = f.x();
    Matrix epos(nelec,3);
    for (size_t i=0;i<nelec;++i) for (unsigned c=0;c<3;++c) epos(i,c) = f.x();
    Matrix mpos(nmeg,3), mori(nmeg,3);
    for (size_t i=0;i<nmeg;++i) { for (unsigned c=0;c<3;++c) mpos(i,c) = f.x(); for (unsigned c=0;c<3;++c) mori(i,c) = f.x(); }
    if (!r.done() || !f.done() || nmeg==0 || nelec==0) throw Reader::Malformed();
    Strings enames, mnames;
    for (size_t i=0;i<nelec;++i) enames.push_back("E"+std::to_string(i));
    for (size_t i=0;i<nmeg;++i)  mnames.push_back("M"+std::to_string(i));
    Vector ew(nelec), er(nelec), mw(nmeg), mr(nmeg); ew.set(1.0); er.set(0.0); mw.set(1.0); mr.set(0.0);
    const Sensors electrodes(enames,epos,Matrix(),ew,er);
    const Sensors squids(mnames,mpos,mori,mw,mr);
    const Matrix ds2mm = DipSource2MEGMat(dipoles,squids);                      // once for the whole sweep
    const auto sds2mm = snap(ds2mm);
    FWire out; out.z = Wire{ST_OK,(ll)k,(ll)ndip,(ll)nelec,(ll)nmeg,0};
    ll dirty = 0;
    for (size_t m=0;m<k;++m) {
        const std::string stem = "m"+std::to_string(ids[m]);
        const Geometry geo(stem+".geom",stem+".cond");
        SymMatrix HM = HeadMat(geo); HM.invert();
        const Matrix dsm = DipSourceMat(geo,dipoles,Integrator(3,10,0.001),"");
        const SparseMatrix h2em = Head2EEGMat(geo,electrodes);
        const Matrix h2mm = Head2MEGMat(geo,squids);
        const auto sHM = snap(HM); const auto sdsm = snap(dsm); const auto sh2mm = snap(h2mm); const auto sh2em = snapsp(h2em);
        const GainEEG GE(HM,dsm,h2em);
        const GainMEG GM(HM,dsm,h2mm,ds2mm);
        for (size_t i=0;i<nelec;++i) for (size_t j=0;j<ndip;++j) out.f.push_back(GE(i,j));
        for (size_t i=0;i<nmeg;++i) for (size_t j=0;j<ndip;++j) out.f.push_back(GM(i,j));
        if (!same(HM,sHM)) dirty |= 1; if (!same(dsm,sdsm)) dirty |= 2; if (!samesp(h2em,sh2em)) dirty |= 4;
        if (!same(h2mm,sh2mm)) dirty |= 8; if (!same(ds2mm,sds2mm)) dirty |= 16;
    }
    out.z[5] = dirty;
    return out;
}

// closed-form pieces: c01p <id> <ndip> <npts> <nmeg> | dipoles points squids  ->  DipSource2MEGMat (nmeg x ndip) then
// DipSource2InternalPotMat at the points (npts x ndip; all points must lie in the dipoles' domain)
static FWire c01p(Reader& r,FReader& f) {
    const ll id = r.z();
    const size_t ndip = r.n(), npts = r.n(), nmeg = r.n();
    Matrix dipoles(ndip,6);
    for (size_t i=0;i<ndip;++i) for (unsigned k=0;k<6;++k) dipoles(i,k) = f.x();
    Matrix pts(npts,3);
    for (size_t i=0;i<npts;++i) for (unsigned k=0;k<3;++k) pts(i,k) = f.x();
    Matrix mpos(nmeg,3), mori(nmeg,3);
    for (size_t i=0;i<nmeg;++i) { for (unsigned k=0;k<3;++k) mpos(i,k) = f.x(); for (unsigned k=0;k<3;++k) mori(i,k) = f.x(); }
    if (!r.done() || !f.done()) throw Reader::Malformed();
    const std::string stem = "m"+std::to_string(id);
    const Geometry geo(stem+".geom",stem+".cond");
    Strings mnames;
    for (size_t i=0;i<nmeg;++i)  mnames.push_back("M"+std::to_string(i));
    Vector mw(nmeg), mr(nmeg); mw.set(1.0); mr.set(0.0);
    const Sensors squids(mnames,mpos,mori,mw,mr);
    const Matrix ds2mm = DipSource2MEGMat(dipoles,squids);
    const Matrix ds2ip = DipSource2InternalPotMat(geo,dipoles,pts,"");
    FWire out; out.z = Wire{ST_OK,(ll)ds2ip.nlin(),(ll)ndip,(ll)nmeg};
    for (size_t i=0;i<nmeg;++i) for (size_t j=0;j<ndip;++j) out.f.push_back(ds2mm(i,j));
    for (size_t i=0;i<ds2ip.nlin();++i) for (size_t j=0;j<ndip;++j) out.f.push_back(ds2ip(i,j));
    return out;
}

// multi-point sensors read from a labelled 7-column file (name x y z ox oy oz weight; one line per integration point, the name
// tells which sensor):  c01m <model id> <ndip> <sensors file id> | dipoles   (file q<id>.squids in the working directory)
//   -> status nsensors npositions nrows ndip mask label_1 ... label_nsensors | GainMEG (nrows x ndip)    (labels are "G<number>")
static FWire c01m(Reader& r,FReader& f) {
    const ll id = r.z(); const size_t ndip = r.n(); const ll fid = r.z();
    Matrix dipoles(ndip,6);
    for (size_t i=0;i<ndip;++i) for (unsigned c=0;c<6;++c) dipoles(i,c) = f.x();
    if (!r.done() || !f.done()) throw Reader::Malformed();
    const std::string stem = "m"+std::to_string(id);
    const Geometry geo(stem+".geom",stem+".cond");
    const Sensors squids(("q"+std::to_string(fid)+".squids").c_str());
    SymMatrix HM = HeadMat(geo); HM.invert();
    const Matrix dsm = DipSourceMat(geo,dipoles,Integrator(3,10,0.001),"");
    const Matrix h2mm  = Head2MEGMat(geo,squids);
    const Matrix ds2mm = DipSource2MEGMat(dipoles,squids);
    const auto sHM = snap(HM); const auto sdsm = snap(dsm); const auto sh2mm = snap(h2mm); const auto sds2mm = snap(ds2mm);
    const GainMEG G(HM,dsm,h2mm,ds2mm);
    ll dirty = 0;
    if (!same(HM,sHM)) dirty |= 1; if (!same(dsm,sdsm)) dirty |= 2; if (!same(h2mm,sh2mm)) dirty |= 8; if (!same(ds2mm,sds2mm)) dirty |= 16;
    FWire out; out.z = Wire{ST_OK,(ll)squids.getNumberOfSensors(),(ll)squids.getNumberOfPositions(),(ll)G.nlin(),(ll)G.ncol(),dirty};
    for (const std::string& n : squids.getNames()) out.z.push_back(n.size()>1 ? atoll(n.c_str()+1) : -1);
    for (size_t i=0;i<G.nlin();++i) for (size_t j=0;j<G.ncol();++j) out.f.push_back(G(i,j));
    return out;
}

int main(int argc,char** argv) {
    if (argc<2) return 2;
    struct rlimit rl; rl.rlim_cur=rl.rlim_max=(rlim_t)12<<30; setrlimit(RLIMIT_AS,&rl);
    return run_cases_f(argv[1],[&](const std::string& comp,Reader& r,FReader& f)->FWire { if (comp=="c01") return c01(r,f); if (comp=="c01p") return c01p(r,f); if (comp=="c01s") return c01s(r,f); if (comp=="c01m") return c01m(r,f); return FWire{Wire{-2},{}}; });
}
