// C09 harness: danielsson.cpp / assembleSensors.cpp / Sensors::getWeightsMatrix of the current tree.
// Case lines are integer wires (coordinates = n/den); results: "ints | hex doubles".
#include <vector.h>
#include <matrix.h>
#include <sparse_matrix.h>
#include <vertex.h>
#include <triangle.h>
#include <mesh.h>
#include <interface.h>
#include <geometry.h>
#include <domain.h>
#include <sensors.h>
#include <danielsson.h>
#include <assemble.h>
#include "wire.h"
#include <map>
#include <memory>

namespace OpenMEEG { double dist_point_triangle(const Vect3&,const Triangle&,Vect3&,bool&); }
using namespace OpenMEEG;

static Vect3 getV(Reader& r,double den) { double x=(double)r.z()/den, y=(double)r.z()/den, z=(double)r.z()/den; return Vect3(x,y,z); }

// a soup of triangles as a Mesh: only triangles() is used by the code under test
struct Soup {
    std::vector<Vertex> V;
    std::vector<std::unique_ptr<Mesh>> M;
};

static void readVerts(Reader& r,double den,std::vector<Vertex>& V) {
    size_t nv=r.n(); V.reserve(nv);
    for (size_t k=0;k<nv;++k) { Vect3 v=getV(r,den); V.push_back(Vertex(v,(unsigned)k)); }
}
static void readMeshes(Reader& r,Soup& s) {
    size_t nm=r.n();
    for (size_t m=0;m<nm;++m) {
        size_t nt=r.n();
        s.M.emplace_back(new Mesh());
        for (size_t t=0;t<nt;++t) {
            size_t a=r.n(), b=r.n(), c=r.n();
            if (a>=s.V.size()||b>=s.V.size()||c>=s.V.size()) throw Reader::Malformed();
            s.M.back()->triangles().push_back(Triangle(&s.V[a],&s.V[b],&s.V[c],(unsigned)t));
        }
    }
}

static long vid(const std::vector<Vertex>& V,const Vect3& p) {
    for (size_t k=0;k<V.size();++k) if (V[k].x()==p.x() && V[k].y()==p.y() && V[k].z()==p.z()) return (long)k;
    return -1;
}

static FWire c09(Reader& r) {
    ll op=r.z();
    if (op==1) {
        double den=(double)r.z();
        Vect3 p=getV(r,den); Vertex A(getV(r,den)), B(getV(r,den)), C(getV(r,den));
        Triangle T(A,B,C);
        Vect3 al; bool inside=true;
        double d=dist_point_triangle(p,T,al,inside);
        return FWire{Wire{ST_OK,inside?1:0},{al(0),al(1),al(2),d}};
    }
    if (op==2) {
        double den=(double)r.z();
        Vect3 p=getV(r,den);
        Soup s; readVerts(r,den,s.V); readMeshes(r,s);
        size_t k=r.n(); Interface I("I");
        for (size_t j=0;j<k;++j) { size_t m=r.n(); if (m>=s.M.size()) throw Reader::Malformed(); I.oriented_meshes().push_back(OrientedMesh(*s.M[m],OrientedMesh::Normal)); }
        Vect3 al;
        const auto& res=dist_point_interface(p,I,al);
        const Triangle& T=std::get<1>(res); const Mesh& M=std::get<2>(res);
        ll mi=-1; for (size_t j=0;j<I.oriented_meshes().size();++j) if (&I.oriented_meshes()[j].mesh()==&M) { mi=(ll)j; break; }
        ll ti=&T-&M.triangles()[0];
        Wire o{ST_OK,mi,ti};
        for (int j=0;j<3;++j) o.push_back((ll)T.vertex(j).index());
        return FWire{o,{al(0),al(1),al(2),std::get<0>(res)}};
    }
    if (op==3 || op==4) {
        // geometry-level: files g<gid>/model.geom|cond written by the check; several electrodes per case
        ll gid=r.z(); double den=(double)r.z();
        size_t np=r.n(); std::vector<Vect3> P; for (size_t k=0;k<np;++k) P.push_back(getV(r,den));
        std::vector<Vertex> V; readVerts(r,den,V);
        std::string dir="g"+std::to_string(gid)+"/";
        Geometry geo(dir+"model.geom",dir+"model.cond");
        std::ostringstream txt; char b[128];
        for (auto& p : P) { snprintf(b,sizeof b,"%.17e %.17e %.17e\n",p.x(),p.y(),p.z()); txt << b; }
        std::istringstream in(txt.str());
        Sensors el; el.load(in);
        SparseMatrix M=Head2EEGMat(geo,el);
        Wire o{ST_OK}; std::vector<double> f;
        for (size_t i=0;i<np;++i) {
            Vect3 al;
            const auto& res=dist_point_geom(P[i],geo,al);
            const std::string& nm=std::get<3>(res).name();
            o.push_back(atoll(nm.c_str()+1));                         // interface "I<k>"
            const Triangle& T=std::get<1>(res);
            for (int j=0;j<3;++j) { o.push_back(vid(V,T.vertex(j))); f.push_back(al(j)); }
            f.push_back(std::get<0>(res));
            // the row of Head2EEGMat: (wire vertex id, value) for every stored entry of row i
            std::vector<std::pair<ll,double>> row;
            for (auto it=M.begin();it!=M.end();++it) if (it->first.first==i) {
                ll w=-1; for (const auto& v : geo.vertices()) if (v.index()==it->first.second) { w=vid(V,v); break; }
                row.push_back({w,it->second});
            }
            o.push_back((ll)row.size());
            for (auto& e : row) { o.push_back(e.first); f.push_back(e.second); }
        }
        return FWire{o,f};
    }
    if (op==6 || op==7) {
        // soup-level geometry built in memory: only domains(), conductivity(), boundaries(), interface() are used
        double den=(double)r.z();
        Vect3 p=getV(r,den);
        Soup s; readVerts(r,den,s.V); readMeshes(r,s);
        size_t ni=r.n(); std::vector<Interface> ifs;
        for (size_t k=0;k<ni;++k) {
            Interface I("I"+std::to_string(k)); size_t nm=r.n();
            for (size_t j=0;j<nm;++j) { size_t m=r.n(); if (m>=s.M.size()) throw Reader::Malformed(); I.oriented_meshes().push_back(OrientedMesh(*s.M[m],OrientedMesh::Normal)); }
            ifs.push_back(I);
        }
        Geometry g; size_t nd=r.n(); bool any=false;
        for (size_t k=0;k<nd;++k) {
            Domain d("D"+std::to_string(k)); ll sg=r.z(); d.set_conductivity((double)sg); size_t nb=r.n();
            for (size_t j=0;j<nb;++j) { size_t i=r.n(); if (i>=ifs.size()) throw Reader::Malformed(); d.boundaries().push_back(SimpleDomain(ifs[i],SimpleDomain::Inside)); if (sg==0 && !ifs[i].oriented_meshes().empty()) any=true; }
            g.domains().push_back(d);
        }
        if (!any) return FWire{Wire{4},{}};                       // no boundary to scan: the code dereferences null
        Vect3 al;
        const auto& res=dist_point_geom(p,g,al);
        const Triangle& T=std::get<1>(res);
        Wire o{ST_OK,atoll(std::get<3>(res).name().c_str()+1)};
        for (int j=0;j<3;++j) o.push_back((ll)T.vertex(j).index());
        return FWire{o,{al(0),al(1),al(2),std::get<0>(res)}};
    }
    if (op==8) {
        // probe: the triangle lists of the loaded geometry (mesh "m<k>"), as wire vertex ids in loaded order
        ll gid=r.z(); double den=(double)r.z();
        std::vector<Vertex> V; readVerts(r,den,V);
        std::string dir="g"+std::to_string(gid)+"/";
        Geometry geo(dir+"model.geom",dir+"model.cond");
        std::vector<const Mesh*> ms(geo.meshes().size(),nullptr);
        for (const auto& m : geo.meshes()) { size_t k=(size_t)atoll(m.name().c_str()+1); if (k<ms.size()) ms[k]=&m; }
        Wire o{ST_OK,(ll)ms.size()};
        for (const Mesh* m : ms) {
            if (!m) throw Reader::Malformed();
            o.push_back((ll)m->triangles().size());
            for (const auto& t : m->triangles()) for (int j=0;j<3;++j) o.push_back(vid(V,t.vertex(j)));
        }
        return FWire{o,{}};
    }
    if (op==15) {
        // history: a first labelled file, then a second one, loaded into the SAME Sensors object; result of the second load
        Sensors s;
        for (int pass=0;pass<2;++pass) {
            size_t n=r.n(); std::vector<size_t> ls; std::vector<ll> ws;
            for (size_t k=0;k<n;++k) ls.push_back(r.n());
            for (size_t k=0;k<n;++k) ws.push_back(r.z());
            std::ostringstream txt;
            for (size_t k=0;k<n;++k) txt << "s" << ls[k] << " " << k << ".5 0.25 1.5 0.0 0.0 1.0 " << ws[k] << ".0\n";
            std::istringstream in(txt.str());
            s.load(in);
        }
        SparseMatrix W=s.getWeightsMatrix();
        Wire o{ST_OK,(ll)s.getNumberOfSensors()};
        for (size_t i=0;i<W.nlin();++i) for (size_t j=0;j<W.ncol();++j) { const SparseMatrix& C=W; o.push_back(exact(C(i,j))); }
        return FWire{o,{}};
    }
    if (op==17) {
        // label-based constructor Sensors(labels,positions,orientations,weights,radii): labels, integer weights
        size_t n=r.n(); Strings labels; Vector w(n), radii(n); Matrix pos(n,3), ori(n,3);
        for (size_t k=0;k<n;++k) labels.push_back("s"+std::to_string(r.n()));
        for (size_t k=0;k<n;++k) { w(k)=(double)r.z(); radii(k)=0.0; pos(k,0)=k+0.5; pos(k,1)=0.25; pos(k,2)=1.5; ori(k,0)=0.0; ori(k,1)=0.0; ori(k,2)=1.0; }
        Sensors s(labels,pos,ori,w,radii);
        SparseMatrix W=s.getWeightsMatrix();
        Wire o{ST_OK,(ll)s.getNumberOfSensors()};
        for (size_t i=0;i<W.nlin();++i) for (size_t j=0;j<W.ncol();++j) { const SparseMatrix& C=W; o.push_back(exact(C(i,j))); }
        return FWire{o,{}};
    }
    if (op==18) {
        // file semantics of Sensors::load: labelled flag, ncol, n, labels (n), last column (n integers)
        bool lab=r.n()!=0; size_t ncol=r.n(), n=r.n(); std::vector<size_t> ls; std::vector<ll> ws;
        for (size_t k=0;k<n;++k) ls.push_back(r.n());
        for (size_t k=0;k<n;++k) ws.push_back(r.z());
        std::ostringstream txt;
        for (size_t k=0;k<n;++k) {
            if (lab) txt << "s" << ls[k] << " ";
            txt << k << ".5 0.25 1.5";                               // first numeric token contains one '.'
            for (size_t c=3;c+1<ncol;++c) txt << (c==5 ? " 1.0" : " 0.0");
            if (ncol>3) txt << " " << ws[k] << ".0";
            txt << "\n";
        }
        std::istringstream in(txt.str());
        Sensors s; s.load(in);
        SparseMatrix W=s.getWeightsMatrix();
        Wire o{ST_OK,(ll)s.getNumberOfSensors()};
        for (size_t i=0;i<W.nlin();++i) for (size_t j=0;j<W.ncol();++j) { const SparseMatrix& C=W; o.push_back(exact(C(i,j))); }
        return FWire{o,{}};
    }
    if (op==19) {
        // label rule of Sensors::load: tokens per line, n, per line: first token float-looking (1) or integer-looking (0), its integer part, last column
        size_t nt=r.n(), n=r.n(); std::vector<size_t> ds, vs; std::vector<ll> ws;
        for (size_t k=0;k<n;++k) ds.push_back(r.n());
        for (size_t k=0;k<n;++k) vs.push_back(r.n());
        for (size_t k=0;k<n;++k) ws.push_back(r.z());
        static const char* mid[] = {"0.25","1.5","0.0","0.0","1.0","0.5","0.75"};
        std::ostringstream txt;
        for (size_t k=0;k<n;++k) {
            txt << vs[k]; if (ds[k]) txt << ".5";
            for (size_t c=1;c+1<nt;++c) txt << " " << mid[(c-1)%7];
            txt << " " << ws[k] << ".0\n";
        }
        std::istringstream in(txt.str());
        Sensors s; s.load(in);
        SparseMatrix W=s.getWeightsMatrix();
        Wire o{ST_OK,s.hasNames()?1:0,(ll)s.getNumberOfSensors()};
        for (size_t i=0;i<W.nlin();++i) for (size_t j=0;j<W.ncol();++j) { const SparseMatrix& C=W; o.push_back(exact(C(i,j))); }
        return FWire{o,{}};
    }
    if (op==5) {
        size_t n=r.n(); std::vector<size_t> ls; std::vector<ll> ws;
        for (size_t k=0;k<n;++k) ls.push_back(r.n());
        for (size_t k=0;k<n;++k) ws.push_back(r.z());
        std::ostringstream txt;
        for (size_t k=0;k<n;++k) txt << "s" << ls[k] << " " << k << ".5 0.25 1.5 0.0 0.0 1.0 " << ws[k] << ".0\n";
        std::istringstream in(txt.str());
        Sensors s; s.load(in);
        SparseMatrix W=s.getWeightsMatrix();
        Wire o{ST_OK,(ll)s.getNumberOfSensors()};
        for (size_t i=0;i<W.nlin();++i) for (size_t j=0;j<W.ncol();++j) { const SparseMatrix& C=W; o.push_back(exact(C(i,j))); }
        return FWire{o,{}};
    }
    throw Reader::Malformed();
}

int main(int argc,char** argv) {
    if (argc<2) return 2;
    return run_cases_f(argv[1],[](const std::string& comp,Reader& r,FReader&) -> FWire {
        if (comp=="c09") return c09(r);
        throw Reader::Malformed();
    });
}
