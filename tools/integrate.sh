#!/bin/sh
# tools/integrate.sh <name>: merge builder branch agent-<name> into /verif main and list its /repo commits.
set -e
n="$1"
cd /verif
git merge --no-edit "agent-$n" || { echo "MERGE CONFLICT in /verif"; exit 1; }
python3 lib/mkmanifest.py
echo "--- repo commits on agent-$n not in main:"
git -C /repo log --oneline --reverse main.."agent-$n" 2>/dev/null || git -C /repo log --oneline --reverse HEAD.."agent-$n"
