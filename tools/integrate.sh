#!/bin/sh
# tools/integrate.sh <name>: merge builder branch agent-<name> into /verif main (generated files are regenerated,
# never merged) and list its /repo commits.
n="$1"
cd /verif
git add -A; git commit -qm "evidence/work before merging agent-$n" >/dev/null 2>&1
git merge --no-commit --no-ff "agent-$n" >/dev/null 2>&1
for f in MANIFEST.json known_findings.json DESIGN.md coq/.nra.cache coq/.lia.cache coq/.nia.cache; do git checkout --ours -- $f 2>/dev/null; git add $f 2>/dev/null; done
for f in $(git diff --name-only --diff-filter=U | grep '^evidence/'); do git checkout --ours -- $f; git add $f; done
git rm -q --cached coq/.nra.cache coq/.lia.cache coq/.nia.cache 2>/dev/null
left=$(git diff --name-only --diff-filter=U)
if [ -n "$left" ]; then echo "UNRESOLVED CONFLICTS:"; echo "$left"; exit 1; fi
python3 lib/mkmanifest.py; python3 tools/mkdesign.py
git add -A; git commit -qm "merge agent-$n" || true
echo "--- repo commits on agent-$n not in main:"
git -C /repo log --oneline --reverse main.."agent-$n"
