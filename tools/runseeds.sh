#!/bin/bash
# tools/runseeds.sh <prop>...: run every seeded/<prop>-k against the check of its property, sequentially (modifies /repo in place and restores it)
cd /verif
for P in "$@"; do
  for d in seeded/$P-*; do
    [ -f $d/patch.diff ] || continue
    echo "=== $d $(date +%H:%M:%S)"
    python3 tools/runseed.py $d 2>&1 | tail -8
  done
done
echo "ALL DONE $(date +%H:%M:%S)"
