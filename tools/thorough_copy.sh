#!/bin/bash
# tools/thorough_copy.sh: thorough tier of every check on private copies of /verif HEAD and /repo HEAD (results are not evidence)
set -e
W=/var/tmp/thorough; mkdir -p $W
[ -d $W/verif ] && git -C /verif worktree remove --force $W/verif 2>/dev/null; rm -rf $W/verif
[ -d $W/repo ] && git -C /repo worktree remove --force $W/repo 2>/dev/null; rm -rf $W/repo
git -C /verif worktree add -q --detach $W/verif HEAD
git -C /repo worktree add -q --detach $W/repo HEAD
export OMVERIF_REPO=$W/repo OMVERIF_SCRATCH=$W/scratch
cd $W/verif && ./setup.sh && tools/runall.sh thorough
