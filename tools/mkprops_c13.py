#!/usr/bin/env python3
"""Regenerates coq/Props/Properties_C13.v from the lemma statements of coq/Maths/DenseProofs.v (statement text copied
verbatim, proof = exact <lemma>).  Run by hand after editing DenseProofs.v; the output is committed."""
import re, os, sys
HERE = os.path.dirname(os.path.dirname(os.path.abspath(__file__)))
src = open(os.path.join(HERE, "coq/Maths/DenseProofs.v")).read() + "\n" + open(os.path.join(HERE, "coq/Maths/Alias.v")).read() + "\n" + open(os.path.join(HERE, "coq/Maths/BlasTie.v")).read() + "\n" + open(os.path.join(HERE, "coq/Maths/ReturnsProofs.v")).read()
WANT = [  # (lemma, one-line meaning)
 ("m_mult_spec", "A*B: DGEMM(N,N,M,L,N,A,M,B,N,C,M) = sum_k a_ik b_kj for all shapes; non-conformable => throws"),
 ("m_tmult_spec", "A'*B"), ("m_multt_spec", "A*B'"), ("m_tmultt_spec", "A'*B' (as repaired)"),
 ("m_mulv_spec", "A*v incl. empty dimensions (as repaired)"), ("m_tmulv_spec", "A'*v"),
 ("m_mult_sym_spec", "Matrix*SymMatrix through DSYMM(Right,Upper)"), ("s_mult_spec", "SymMatrix*Matrix through DSYMM(Left,Upper)"),
 ("s_mult_sym_spec", "SymMatrix*SymMatrix"), ("s_mulv_spec", "SymMatrix*Vector through DSPMV"),
 ("v_outer_spec", "outer product through DGER"), ("v_mulm_spec", "Vector*Matrix"),
 ("m_addsub_spec", "Matrix +/- Matrix (daxpy on the buffers)"), ("dget_ew2", "entries of an element-wise result"), ("dwf_ew2", ""),
 ("m_scale_spec", "Matrix*double"), ("dget_ew1", ""), ("m_dot_spec", "Matrix::dot"), ("m_dot_entries", "buffer sum = double sum over entries"),
 ("m_frob2_spec", "squared Frobenius norm"),
 ("v_add_spec", ""), ("v_sub_spec", ""), ("v_neg_spec", ""), ("v_scale_spec", ""), ("v_addc_spec", ""), ("v_dot_spec", ""),
 ("v_norm2_spec", ""), ("v_kmult_spec", ""), ("v_sum_spec", ""), ("v_get_spec", ""), ("v_subvect_spec", ""),
 ("m_get_spec", "element read: slot i+nlin*j"), ("m_put_spec", ""), ("dget_upd", "an element write changes exactly that entry"),
 ("m_submat_spec", "sub-block by per-column dcopy"), ("m_insertmat_spec", "block insertion changes exactly the block"),
 ("m_getcol_spec", ""), ("m_getlin_spec", "row read with stride nlin"), ("m_setcol_spec", "column write changes exactly that column"),
 ("m_setlin_spec", "row write (stride nlin) changes exactly that row"), ("m_transpose_spec", ""), ("m_of_vec_spec", ""),
 ("dense_eta", "a well-formed matrix is determined by its entries"),
 ("pidx_sym", "packed slot of (i,j) = slot of (j,i)"), ("pidx_lt", "slots stay inside the packed buffer"),
 ("pidx_inj", "distinct ordered pairs have distinct slots"), ("pidx_surj", "every slot is hit: bijection with {i<=j<n}"),
 ("sget_sym", "symmetric storage returns the same value for (i,j) and (j,i)"),
 ("s_get_spec", ""), ("s_put_spec", ""), ("sget_upd", "writing (i,j) changes (i,j) and (j,i) only"),
 ("s_getlin_spec", ""), ("s_setlin_spec", ""), ("s_block_spec", "SymMatrix::operator()(i0,i1,j0,j1)"),
 ("s_submat4_spec", ""), ("s_submat2_spec", "SymMatrix::submat(istart,iend) (as repaired)"), ("s_of_dense_spec", ""),
 ("sget_mks", "entries of a packed table"), ("swf_mks", ""), ("dget_sym_to_dense", "Matrix(SymMatrix)"),
 ("s_addsub_spec", ""), ("sget_sew2", ""), ("s_scale_spec", ""), ("sget_sew1", ""),
 ("det_scan_spec", "SymMatrix::det pivot scan = product of 1x1/2x2 block determinants, never reads outside"),
 ("mult_is_source_call", "the model's DGEMM call for A*B is the one translated from matrix.h (flags, m n k, lda ldb ldc, result shape)"),
 ("tmult_is_source_call", ""), ("multt_is_source_call", ""), ("tmultt_is_source_call", ""),
 ("mulv_is_source_call", "DGEMV call and zero-initialised result as in matrix.h"), ("tmulv_is_source_call", ""),
 ("mult_sym_is_source_call", "DSYMM(Right,Upper) on the dense copy of the argument"), ("sym_mult_is_source_call", ""), ("sym_mult_sym_is_source_call", ""),
 ("v_add_is_source_call", "level-1 call sites (daxpy/ddot/dscal/dnrm2/DGER/dcopy/DSPMV) translated from the source: n, alpha, buffers, offsets, strides"),
 ("v_sub_is_source_call", ""),
 ("v_iadd_is_source_call", ""),
 ("v_isub_is_source_call", ""),
 ("v_dot_is_source_call", ""),
 ("v_scale_is_source_call", ""),
 ("v_norm_is_source_call", ""),
 ("v_outer_is_source_call", ""),
 ("m_getcol_is_source_call", ""),
 ("m_getlin_is_source_call", ""),
 ("m_setcol_is_source_call", ""),
 ("m_setlin_is_source_call", ""),
 ("m_iadd_is_source_call", ""),
 ("m_isub_is_source_call", ""),
 ("m_dot_is_source_call", ""),
 ("s_iadd_is_source_call", ""),
 ("s_isub_is_source_call", ""),
 ("s_mulv_is_source_call", ""),
 ("value_methods_return_fresh", "every `return` of every value-returning method (origins translated from the source) is a sized-constructor / DEEP_COPY local or an expression of such methods"),
 ("in_place_solver_is_the_only_exception", "SymMatrix::solveLin(Matrix&) returns its non-const argument (documented in-place solve)"),
 ("many_methods_covered", ""),
 ("fresh_result_independent", "such a result has a buffer distinct from every operand: writes to either side do not show on the other"),
 ("deep_copy_independent", "a DEEP_COPY shares nothing with its source: writing either leaves the other unchanged"),
 ("shallow_copy_aliases", "a plain copy shares the buffer (documented behaviour)"),
 ("tmultt_pinned_refuted", "the pinned tmultt call violates the definition (3x2 with 4x3: out-of-bounds read)"),
 ("tmultt_pinned_partial", "... and is right exactly in the shapes the tests used"),
 ("sym_submat_pinned_refuted", "pinned SymMatrix::submat(1,2) of a 3x3 throws"),
 ("mulv_pinned_refuted", "pinned Matrix(3x0)*Vector(0) returns an unwritten buffer"), ("tmulv_pinned_refuted", ""),
 ("mulv_pinned_partial", ""), ("submat_pinned_refuted", "pinned Matrix::submat guard wraps: (2^32-1,2,0,1) on 3x4 is not rejected and reads out of bounds"),
]
def stmt(name):
    m = re.search(r"^Lemma %s\b(.*?)\.\s+Proof\." % re.escape(name), src, re.S | re.M)
    if not m: raise SystemExit("lemma %s not found" % name)
    body = m.group(1)
    # split binders from statement at the first top-level ':'
    depth = 0
    for k, ch in enumerate(body):
        if ch in "([{": depth += 1
        elif ch in ")]}": depth -= 1
        elif ch == ":" and depth == 0 and body[k + 1] != "=":
            return body[:k].strip(), body[k + 1:].strip()
    raise SystemExit("cannot split %s" % name)
out = ["(* C13 -- dense linear algebra (Vector / Matrix / SymMatrix) agrees with its mathematical definition.",
       "   GENERATED by tools/mkprops_c13.py from coq/Maths/DenseProofs.v: property theorems only, each closed by",
       "   [exact <lemma>] and followed by Print Assumptions.  The model (coq/Maths/DenseModel.v) calls the BLAS reference",
       "   semantics with the flags / dimensions / leading dimensions of the source and reads buffers with checked",
       "   reads: [Ok v] normal return, [Throw] om_assert, [Undef] out-of-bounds access or unwritten result. *)",
       "From OM Require Import Base.Lists Maths.Dense Maths.DenseModel Maths.DenseProofs Maths.Alias Gen.GenBlasCalls Maths.BlasTie Gen.GenReturns Maths.ReturnsProofs.",
       "Local Open Scope nat_scope.", "Local Notation ln := (@length Z).", ""]
for name, what in WANT:
    b, s = stmt(name)
    if what: out.append("(* %s *)" % what)
    out.append("Theorem c13_%s : %s%s." % (name, ("forall %s, " % b) if b else "", s))
    out.append("Proof. exact %s. Qed." % ("@" + name if False else name))
    out.append("Print Assumptions c13_%s." % name); out.append("")
out += ['''(* ---- the hypotheses are satisfiable / the statements are not vacuous ---- *)
Example c13_ex_product : m_tmultt wA wB = Ok (dn 2 4 [86; 416; 92; 452; 98; 488; 104; 524]%Z).
Proof. vm_compute. reflexivity. Qed.
Example c13_ex_nonconformable : m_mult wA wA = Throw.
Proof. vm_compute. reflexivity. Qed.
Example c13_ex_empty_inner : m_mult (dn 3 0 []) (dn 0 2 []) = Ok (dn 3 2 [0; 0; 0; 0; 0; 0]%Z).
Proof. vm_compute. reflexivity. Qed.
Example c13_ex_sym_submat : s_submat2 wS 1 2 = Ok {| sn := 2; sd := [3; 5; 6]%Z |}.
Proof. vm_compute. reflexivity. Qed.
Example c13_ex_sym_submat_pinned_ok_at_0 : s_submat2_pinned wS 0 1 = s_submat2 wS 0 1.
Proof. vm_compute. reflexivity. Qed.
(* a pivot array with a 1x1 block, a 2x2 block and a 1x1 block *)
Example c13_ex_bk_shape : exists D, bkdet 4 [1; -2; -2; 4]%Z (fun i j => Z.of_nat (1 + i + j)) 0 D /\ D = (-7)%Z.
Proof.
  eexists. split.
  - eapply (bk_one 4 _ _ 0 1%Z); try reflexivity; try lia.
    eapply (bk_two 4 _ _ 1 (-2)%Z); try reflexivity; try lia.
    eapply (bk_one 4 _ _ 3 4%Z); try reflexivity; try lia.
    apply bk_end.
  - vm_compute. reflexivity.
Qed.
Example c13_ex_det_scan : det_scan 4 4 0 [1; -2; -2; 4]%Z (fun a b => if (a <? 4) && (b <? 4) then Some (Z.of_nat (1 + a + b)) else None) 1 0 = Some ((-7)%Z, 0).
Proof. vm_compute. reflexivity. Qed.
(* a pivot array that LAPACK never returns (unpaired negative entry) is reported, not misread *)
Example c13_ex_det_scan_bad : det_scan 2 2 0 [-1; 2]%Z (fun a b => Some 1%Z) 1 0 = Some (1%Z, 1).
Proof. vm_compute. reflexivity. Qed.
''']
open(os.path.join(HERE, "coq/Props/Properties_C13.v"), "w").write("\n".join(out))
print(len(WANT), "theorems")
