#!/usr/bin/env python3
"""tools/runseed.py <seeded/<name>> [--props C13,C18] [--tier quick]
Applies seeded/<name>/patch.diff to /repo, runs the listed checks (default: meta.json 'property'), records the outcome in
seeded/<name>/result.json, and always restores /repo afterwards."""
import json, os, subprocess, sys, time
VERIF = os.path.dirname(os.path.dirname(os.path.abspath(__file__)))
def sh(cmd, **kw): return subprocess.run(cmd, stdout=subprocess.PIPE, stderr=subprocess.STDOUT, text=True, **kw)
def main():
    d = os.path.abspath(sys.argv[1]); args = sys.argv[2:]
    meta = json.load(open(os.path.join(d, "meta.json")))
    props = [meta["property"]]; tier = "quick"
    if "--props" in args: props = args[args.index("--props") + 1].split(",")
    if "--tier" in args: tier = args[args.index("--tier") + 1]
    st = sh(["git", "-C", "/repo", "status", "--porcelain", "--untracked-files=no"]).stdout.strip()
    if st: print("refusing: /repo has local modifications:\n" + st); return 2
    r = sh(["git", "-C", "/repo", "apply", "--whitespace=nowarn", os.path.join(d, "patch.diff")])
    if r.returncode != 0: print("patch does not apply:\n" + r.stdout); return 2
    res = {}
    try:
        for p in props:
            t0 = time.time()
            r = sh([os.path.join(VERIF, "check"), p, "--tier", tier], cwd=VERIF)
            lines = [l for l in r.stdout.split("\n") if l.startswith(("VIOLATION", "KNOWN-FINDING", "  "))]
            res[p] = dict(exit=r.returncode, caught=(r.returncode == 1 and any(l.startswith("VIOLATION") for l in lines)),
                          lines=lines[:12], wall_s=round(time.time() - t0, 1))
            print(p, "exit", r.returncode, "caught" if res[p]["caught"] else "MISSED", "%.0fs" % (time.time() - t0))
            for l in lines[:6]: print("   ", l[:300])
            # keep a copy of the first replay file for the record
    finally:
        sh(["git", "-C", "/repo", "checkout", "--", "."])
        sh(["git", "-C", "/repo", "clean", "-fdq", "-e", "_build"])
    out = os.path.join(d, "result.json")
    old = json.load(open(out)) if os.path.exists(out) else {}
    old.update(res); json.dump(old, open(out, "w"), indent=1)
    return 0
if __name__ == "__main__":
    sys.exit(main())
