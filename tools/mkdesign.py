#!/usr/bin/env python3
"""Regenerates the generated tail of DESIGN.md (sections 7 and 8) from design/C*.md and seeded/*/{meta,result}.json."""
import os, json, glob, re
V = os.path.dirname(os.path.dirname(os.path.abspath(__file__)))
BEGIN = "<!-- GENERATED:BEGIN (tools/mkdesign.py) -->"; END = "<!-- GENERATED:END -->"
def main():
    d = open(os.path.join(V, "DESIGN.md")).read()
    if BEGIN in d: d = d[:d.index(BEGIN)].rstrip() + "\n"
    out = [BEGIN, "", "## 7. As built (one note per property, written by whoever built the check; `design/Cxx.md`)", ""]
    claimed = {c["property_id"] for c in json.load(open(os.path.join(V, "MANIFEST.json")))["checks"]}
    # overview table: what is claimed, measured on the last run of each check (evidence/*.json) and on the seeded changes
    man = json.load(open(os.path.join(V, "MANIFEST.json")))
    kf = json.load(open(os.path.join(V, "known_findings.json")))
    out += ["### 7.0 Overview (generated from MANIFEST.json, evidence/*.json, known_findings.json, seeded/*/result.json)", "",
            "| property | level claimed | theorems proved / stated | correspondence cases (last quick run) | quick wall s | known findings | fixes | seeded changes caught by its own check (any check) / confirmed |",
            "|---|---|---|---|---|---|---|---|"]
    for c in man["checks"]:
        pid = c["property_id"]
        try: ev = json.load(open(os.path.join(V, "evidence", pid + ".json")))
        except Exception: ev = {}
        cov = ev.get("coverage", {})
        nk = len([k for k in kf.get("known", []) if k.get("property") == pid])
        nf = len([f for f in kf.get("fixed", []) if ("property=%s " % pid) in f])
        own = anyc = tot = 0
        for m in sorted(glob.glob(os.path.join(V, "seeded", pid + "-*", "meta.json"))):
            meta = json.load(open(m))
            if meta.get("status"): continue
            tot += 1
            rp = os.path.join(os.path.dirname(m), "result.json")
            res = json.load(open(rp)) if os.path.exists(rp) else {}
            if res.get(pid, {}).get("caught"): own += 1
            if any(v.get("caught") for v in res.values()): anyc += 1
        out.append("| %s | %s | %s / %s | %s | %s | %d | %d | %d (%d) / %d |" % (pid, c["level_claimed"]["category"], cov.get("discharged", "-"), cov.get("obligations", "-"),
                   cov.get("evaluations", "-"), ev.get("wall_s", "-"), nk, nf, own, anyc, tot))
    out += ["", "Seeded changes marked obsolete/neutralised (their target code was repaired since) are not counted. \"caught\" = the check exits 1 with a VIOLATION line on the tree with the change applied.", ""]
    for p in sorted(glob.glob(os.path.join(V, "design", "C*.md"))):
        pid = os.path.basename(p)[:-3]
        txt = open(p).read().strip()
        # demote the note's headings so that they nest under section 7 (its top heading becomes ###)
        top = min([len(m.group(1)) for m in re.finditer(r"^(#+) ", txt, re.M)] or [3])
        txt = re.sub(r"^(#+) ", lambda m: "#" * (len(m.group(1)) - top + 3) + " ", txt, flags=re.M)
        out += [txt, "", "_claimed in MANIFEST.json: %s_" % ("yes" if pid in claimed else "no"), ""]
    out += ["## 8. Seeded breaking changes (written by independent sub-agents given only the property text) and what caught them", "",
            "| seed | property | what it needs to manifest | checks run → outcome |", "|---|---|---|---|"]
    for m in sorted(glob.glob(os.path.join(V, "seeded", "*", "meta.json"))):
        meta = json.load(open(m)); name = os.path.basename(os.path.dirname(m))
        rp = os.path.join(os.path.dirname(m), "result.json")
        res = json.load(open(rp)) if os.path.exists(rp) else {}
        oc = "; ".join("%s: %s" % (k, ("caught — " + (v["lines"][1].strip()[:140] if len(v.get("lines", [])) > 1 else "VIOLATION")) if v.get("caught") else "MISSED (exit %s)" % v.get("exit")) for k, v in sorted(res.items())) or "not run yet"
        if meta.get("status"): oc = meta["status"][:300]
        out.append("| %s | %s | %s | %s |" % (name, meta.get("property"), str(meta.get("needs", "")).replace("|", "/")[:260], oc.replace("|", "/")))
    cp = os.path.join(V, "design", "CORRECTIONS.md")
    out += ["", "## 9. Corrections: false alarms, withdrawn fixes and revised decisions", "",
            open(cp).read().strip() if os.path.exists(cp) else "(none recorded)"]
    out += ["", END, ""]
    open(os.path.join(V, "DESIGN.md"), "w").write(d + "\n" + "\n".join(out))
if __name__ == "__main__":
    main()
