#!/usr/bin/env python3
"""Regenerates the generated tail of DESIGN.md (sections 7 and 8) from design/C*.md and seeded/*/{meta,result}.json."""
import os, json, glob, re
V = os.path.dirname(os.path.dirname(os.path.abspath(__file__)))
BEGIN = "<!-- GENERATED:BEGIN (tools/mkdesign.py) -->"; END = "<!-- GENERATED:END -->"
def main():
    d = open(os.path.join(V, "DESIGN.md")).read()
    if BEGIN in d: d = d[:d.index(BEGIN)].rstrip() + "\n"
    out = [BEGIN, "", "## 7. As built (one note per property, written by whoever built the check; `design/Cxx.md`)", ""]
    claimed = {c["property_id"] for c in json.load(open(os.path.join(V, "MANIFEST.json")))["checks"]}
    # overview table: what is claimed, measured on the last run of each check (evidence/*.json) and on the seeded changes
    man = json.load(open(os.path.join(V, "MANIFEST.json")))
    kf = json.load(open(os.path.join(V, "known_findings.json")))
    out += ["### 7.0 Overview (generated from MANIFEST.json, evidence/*.json, known_findings.json, seeded/*/result.json)", "",
            "| property | level claimed | theorems proved / stated | correspondence cases (last quick run) | quick wall s | known findings | fixes | seeded changes caught by its own check (any check) / confirmed |",
            "|---|---|---|---|---|---|---|---|"]
    for c in man["checks"]:
        pid = c["property_id"]
        try: ev = json.load(open(os.path.join(V, "evidence", pid + ".json")))
        except Exception: ev = {}
        cov = ev.get("coverage", {})
        nk = len([k for k in kf.get("known", []) if k.get("property") == pid])
        nf = len([f for f in kf.get("fixed", []) if ("property=%s " % pid) in f])
        own = anyc = tot = 0
        for m in sorted(glob.glob(os.path.join(V, "seeded", pid + "-*", "meta.json"))):
            meta = json.load(open(m))
            if meta.get("status"): continue
            tot += 1
            rp = os.path.join(os.path.dirname(m), "result.json")
            res = json.load(open(rp)) if os.path.exists(rp) else {}
            if res.get(pid, {}).get("caught"): own += 1
            if any(v.get("caught") for v in res.values()): anyc += 1
        out.append("| %s | %s | %s / %s | %s | %s | %d | %d | %d (%d) / %d |" % (pid, c["level_claimed"]["category"], cov.get("discharged", "-"), cov.get("obligations", "-"),
                   cov.get("evaluations", "-"), ev.get("wall_s", "-"), nk, nf, own, anyc, tot))
    out += ["", "Seeded changes marked obsolete/neutralised (their target code was repaired since) are not counted. \"caught\" = the check exits 1 with a VIOLATION line on the tree with the change applied.", ""]
    for p in sorted(glob.glob(os.path.join(V, "design", "C*.md"))):
        pid = os.path.basename(p)[:-3]
        txt = open(p).read().strip()
        # demote the note's headings so that they nest under section 7 (its top heading becomes ###)
        top = min([len(m.group(1)) for m in re.finditer(r"^(#+) ", txt, re.M)] or [3])
        txt = re.sub(r"^(#+) ", lambda m: "#" * (len(m.group(1)) - top + 3) + " ", txt, flags=re.M)
        out += [txt, "", "_claimed in MANIFEST.json: %s_" % ("yes" if pid in claimed else "no"), ""]
    out += ["## 8. Seeded breaking changes (written by independent sub-agents given only the property text) and what caught them", "",
            open(os.path.join(V, "seeded", "FIRSTPASS.md")).read().strip() if os.path.exists(os.path.join(V, "seeded", "FIRSTPASS.md")) else "", "",
            "@TALLY@", "",
            "| seed | property | what it needs to manifest | checks run → outcome |", "|---|---|---|---|"]
    tally = dict(own=0, other=0, missed=0, special=0, notrun=0)
    for m in sorted(glob.glob(os.path.join(V, "seeded", "*", "meta.json"))):
        meta = json.load(open(m)); name = os.path.basename(os.path.dirname(m))
        rp = os.path.join(os.path.dirname(m), "result.json")
        res = json.load(open(rp)) if os.path.exists(rp) else {}
        oc = "; ".join("%s: %s" % (k, ("caught — " + (v["lines"][1].strip()[:140] if len(v.get("lines", [])) > 1 else "VIOLATION")) if v.get("caught") else "MISSED (exit %s)" % v.get("exit")) for k, v in sorted(res.items())) or "not run yet"
        if meta.get("status"): oc = meta["status"][:300]; tally["special"] += 1
        elif not res: tally["notrun"] += 1
        elif res.get(meta.get("property"), {}).get("caught"): tally["own"] += 1
        elif any(v.get("caught") for v in res.values()): tally["other"] += 1
        else: tally["missed"] += 1
        out.append("| %s | %s | %s | %s |" % (name, meta.get("property"), str(meta.get("needs", "")).replace("|", "/")[:260], oc.replace("|", "/")))
    out[out.index("@TALLY@")] = ("**Tally (generated):** %d seeded changes; %d caught by the quick check of their own property, %d only by another property's check, "
        "%d missed, %d obsolete/neutralised by later fixes, %d not run yet." % (sum(tally.values()), tally["own"], tally["other"], tally["missed"], tally["special"], tally["notrun"]))
    cp = os.path.join(V, "design", "CORRECTIONS.md")
    out += ["", "## 9. Corrections: false alarms, withdrawn fixes and revised decisions", "",
            open(cp).read().strip() if os.path.exists(cp) else "(none recorded)"]
    # ---- section 10: trusted base as built (from the evidence of the last run of every check)
    out += ["", "## 10. Trusted base as built (generated)", "",
            "* **Proof assistant**: Coq 8.16.1 kernel (`coqc`, full `.vo` builds, never `-vos`); `vm_compute` is used for finite sweeps, witnesses and `reflexivity`-closed tie theorems; **no** `native_compute`, no disabled guard/positivity/universe checking, no `-type-in-type`/`-impredicative-set`; no `Axiom`/`Parameter`/`Conjecture`/`Admitted`/`admit`/`Admit Obligations` anywhere (a grep gate over every `.v` file, comments stripped, runs in every check and fails it: `lib/core.py:gate`). The thorough tier additionally re-checks the property module and all its dependencies with `coqchk -o`.",
            "* **Axioms each property theorem depends on** (`Print Assumptions` under every theorem of `coq/Props/Properties_Cxx.v`, parsed into `evidence/Cxx.json: coverage.theorems[].axioms`): union per property:"]
    import collections
    for c in man["checks"]:
        pid = c["property_id"]
        try: ev = json.load(open(os.path.join(V, "evidence", pid + ".json")))
        except Exception: continue
        ax = collections.Counter()
        th = ev.get("coverage", {}).get("theorems", [])
        for t in th:
            for a in (t.get("axioms") or []): ax[a] += 1
        closed = len([t for t in th if not (t.get("axioms") or [])])
        out.append("  * %s: %d of %d statements closed under the global context%s" % (pid, closed, len(th),
                   ("; others use " + ", ".join("`%s` (%d)" % (a, n) for a, n in sorted(ax.items()))) if ax else ""))
    out += ["  (all of these are axioms the standard library itself declares: the classical real numbers of `Reals` and functional extensionality; Coquelicot's `is_RInt` statements in C16 bring in the same ones.)",
            "* **Assumed behaviour of external code** is never an axiom: it is a `Section` `Variable`/`Hypothesis` and therefore a visible premise of the theorem (BLAS reference semantics written in Gallina and tied call-by-call by `t_blascalls.py`; LAPACK contracts — `solveLin_spec` etc.; Gauss' law for closed oriented surfaces; `rnd6`/float32 rounding idempotent and supplied by the harness from libc; the Dirichlet formula as the *definition* of the monomial integral); each check lists its own in `evidence/Cxx.json: assumptions`.",
            "* **Translators** (regenerate `coq/Gen/*.v` from /repo's current sources before every Coq build; unknown syntax is a reported problem, never a guess; pattern-based and trusted):"]
    for t in sorted(glob.glob(os.path.join(V, "translators", "t_*.py"))):
        src = open(t).read(); m = re.search(r"^SERVES = \((.*?)\)", src, re.M)
        doc = (re.search(r'"""(.*?)"""', src, re.S) or [None, ""])[1].strip().split("\n")[0][:160]
        out.append("  * `%s` (reported by %s): %s" % (os.path.basename(t), m.group(1).replace('"', "").strip(", ") if m else "every check", doc))
    ents = re.findall(r"\(\*\s*EXTRACT-([ZF]):\s*(\w+)\s+(\w+)", "\n".join(open(f).read() for f in glob.glob(os.path.join(V, "coq", "*", "*.v"))))
    out += ["* **Extraction**: `Require Import ExtrOcamlBasic` only (bool, option, unit, list, prod, sumbool → OCaml natives); **no `Extract Constant`, no `Extract Inductive` of our own**; `nat`, `positive`, `N`, `Z`, `Q` stay the extracted inductives. `extract/gen_extract.py` emits one `Extraction \"model.ml\"` command for the %d marked entry points (%s). The float models are functions of an `Ops F` record; `extract/prelude.ml` builds the IEEE-double record from OCaml's `+. -. *. /. sqrt log Float.atan2 Float.abs` and comparisons; `extract/main.ml` is the line-oriented driver (integers, and doubles as C99 hex)." % (len(ents), ", ".join("%s:%s" % (c, k) for k, c, f in sorted(set(ents), key=lambda e: e[1]))),
            "* **Correspondence**: the C++ harnesses `harness/h_c*.cpp` (compiled against a scratch build of /repo's *working tree*, `-DOPENMEEG_VERIF`, `lib/ombuild.py`), the Python runners and generators (`checks/`, `lib/`), libc number formatting/parsing, OpenBLAS/LAPACKE, libgomp, libmatio/HDF5, the filesystem. Comparison classes are in section 2.4; tolerances other than exact/rounding never gate a `proof`-level claim.",
            "* **Modelled rather than verified**: everything in `coq/` except `coq/Gen/` is a hand-written Gallina model of the C++ (section 7 says per property which functions are modelled and how each is tied); nothing about the C++ object code itself is proved. What each model leaves out is listed under \"Limits\"/\"Not covered\" in the section 7 notes."]
    out += ["", END, ""]
    open(os.path.join(V, "DESIGN.md"), "w").write(d + "\n" + "\n".join(out))
if __name__ == "__main__":
    main()
