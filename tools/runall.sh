#!/bin/bash
# tools/runall.sh [tier]: every claimed check once on /repo as it is; summary line per property
cd "$(dirname "$0")/.."; tier=${1:-quick}
for p in $(python3 -c "import json;print(' '.join(c['property_id'] for c in json.load(open('MANIFEST.json'))['checks']))"); do
  t0=$(date +%s); out=$(./check $p --tier $tier 2>/dev/null); rc=$?; t1=$(date +%s)
  echo "$p rc=$rc $((t1-t0))s viol=$(echo "$out" | grep -c '^VIOLATION') known=$(echo "$out" | grep -c '^KNOWN-FINDING')"
  echo "$out" | grep '^VIOLATION' -A1 | cut -c1-300
done
