#!/usr/bin/env python3
"""tools/mkseed.py <Cxx> [n] [first k]: scratch worktree /tmp/seed/<Cxx>/repo of /repo HEAD + PROMPT.md holding ONLY the property text
and the task for an independent 'breaker' sub-agent (nothing from /verif's machinery)."""
import json, os, subprocess, sys
pid = sys.argv[1]; n = int(sys.argv[2]) if len(sys.argv) > 2 else 3
start = int(sys.argv[3]) if len(sys.argv) > 3 else 1
ks = ", ".join(str(k) for k in range(start, start + n))
root = "/tmp/seed/%s" % pid
os.makedirs(root, exist_ok=True)
if not os.path.isdir(root + "/repo"):
    subprocess.check_call(["git", "-C", "/repo", "worktree", "add", "-q", "--detach", root + "/repo", "HEAD"])
import glob
taken = []
for m in sorted(glob.glob("/verif/seeded/%s-*/meta.json" % pid)):
    d = json.load(open(m)); pd = os.path.dirname(m)
    files = sorted({l[6:].strip() for l in open(pd + "/patch.diff") if l.startswith("+++ b/")})
    taken.append("- %s: %s" % (", ".join(files), d.get("needs", "")[:200]))
prop = [json.loads(l) for l in open("/verif/properties.jsonl") if l.strip() and json.loads(l)["id"] == pid][0]
txt = f"""# Task: break one semantic property of openmeeg with a subtle change

You have your own scratch git worktree of the openmeeg repository (C++ boundary-element solver for EEG/MEG forward
problems, with its own matrix library and file I/O) at `{root}/repo`. Work only there and under `{root}/` (build
directory `{root}/build`, your demonstration programs under `{root}/out/`). Do not touch `/repo`, `/verif` or anything else.
The sandbox is offline; nothing can be installed.

## The property (this is ALL you are told about what will be checked)

id: {prop['id']} — {prop['title']}

Statement: {prop['statement']}

Quantified over: {prop['quantifier']['text']}

Why the existing tests cannot settle it: {prop['why_tests_cant']}

Anchors in the code: {json.dumps(prop['anchors'], indent=1)}

## What to produce

{n} **independent, different** changes to the source of openmeeg (each one a separate patch against the unchanged
worktree, touching the library/apps sources — not the tests, not the build system), each of which

1. **breaks the property** above for some inputs / states / schedules / histories,
2. still **compiles** and still **passes the existing test suite** (build with
   `cmake -G Ninja -S {root}/repo -B {root}/build -DCMAKE_BUILD_TYPE=RelWithDebInfo -DBUILD_TESTING=ON -DCPM_USE_LOCAL_PACKAGES=ON -DCMAKE_CXX_FLAGS=-Wno-error && cmake --build {root}/build -j8`
   and run `OMP_NUM_THREADS=2 OPENBLAS_NUM_THREADS=1 ctest --test-dir {root}/build -j6 --timeout 1800` — all tests that pass without your change must pass with it;
   the full suite has ~554 tests and takes several minutes, so first run the subset that touches the code you changed
   (`ctest -R <regex>`), and run the full suite once per final patch),
3. is **realistic** — the kind of slip a maintainer could make in a refactor or "optimisation" and a reviewer could miss
   (an off-by-one in a rarely used branch, a swapped argument that is symmetric for the tested layout, a dropped reset,
   a weakened guard, a wrong index for an optional parameter …), not sabotage guarded by a magic constant,
4. needs **something specific to manifest**: a particular interleaving, a crash or fault at a particular point, a
   multi-step sequence of operations, an unusual input (shape, size, topology, ordering), or two cooperating sites that
   each look fine alone — NOT something that ordinary use or the sample data would expose at once.

Make the {n} changes diverse: different files / mechanisms / clauses of the property statement.
{("Changes of this kind were already produced by others - yours must be DIFFERENT in mechanism and, where possible, in the clause of the property they break (file touched: what it needs to manifest):" + chr(10) + chr(10).join(taken)) if taken else ""}

Number your changes k = {ks}. For each change k write into `{root}/out/k/`:
* `patch.diff` — `git diff` of the change against the unchanged worktree (apply-able with `git apply`),
* a **demonstration**: a small self-contained C++ program `demo.cpp` (linking the built library; give the exact
  compile command in `README.md`) or a shell script `demo.sh` driving the built command-line tools, that **exits 0 on the
  unchanged tree and exits non-zero with the change** and prints what it observed,
* `README.md` — which clause of the property it breaks, what exactly it needs in order to manifest, and the commands you
  ran (build, tests subset, full suite result, demo with and without the change) with their outcomes.

Leave the worktree **unchanged** (all changes reverted: `git -C {root}/repo checkout -- .`) when you finish; you may delete
`{root}/build` at the end. Final answer: a short list of the {n} changes (one line each: file, idea, what it needs to manifest)
and whether each passed the full suite.
"""
open(root + "/PROMPT.md", "w").write(txt)
print(root + "/PROMPT.md")
