#!/usr/bin/env python3
"""tools/seedfarm.py [-j N] [--all-props] [--props C13,C18] <seeded/name>...
Runs seeded changes against checks in parallel WITHOUT touching /repo: every worker has its own worktree of /verif (HEAD,
set up once) and of /repo (HEAD); the seeded patch is applied to the worker's repo copy and the checks run there with
OMVERIF_REPO pointing at it.  Results are merged into seeded/<name>/result.json of the main /verif.
(The registered procedure - git -C /repo apply; ./check; git -C /repo checkout - is tools/runseed.py; this is the same run
on a copy, used for volume.)"""
import json, os, subprocess, sys, threading, queue, time
VERIF = os.path.dirname(os.path.dirname(os.path.abspath(__file__)))
ROOT = "/var/tmp/seedfarm"

def sh(cmd, **kw):
    return subprocess.run(cmd, stdout=subprocess.PIPE, stderr=subprocess.STDOUT, text=True, **kw)

def setup_worker(k):
    w = os.path.join(ROOT, "w%d" % k); v = w + "/verif"; r = w + "/repo"
    os.makedirs(w, exist_ok=True)
    head = sh(["git", "-C", VERIF, "rev-parse", "HEAD"]).stdout.strip()
    rhead = sh(["git", "-C", "/repo", "rev-parse", "HEAD"]).stdout.strip()
    if not os.path.isdir(v):
        sh(["git", "-C", VERIF, "worktree", "add", "--detach", v, head])
    else:
        sh(["git", "-C", v, "checkout", "-q", "-f", "--detach", head])
    if not os.path.isdir(r):
        sh(["git", "-C", "/repo", "worktree", "add", "--detach", r, rhead])
    else:
        sh(["git", "-C", r, "checkout", "-q", "--", "."]); sh(["git", "-C", r, "clean", "-fdq"]); sh(["git", "-C", r, "checkout", "-q", "--detach", rhead])
    env = dict(os.environ, OMVERIF_REPO=r, OMVERIF_SCRATCH=w + "/scratch")
    p = sh(["./setup.sh"], cwd=v, env=env)
    if "setup ok" not in p.stdout: raise RuntimeError("worker setup failed: " + p.stdout[-500:])
    return v, r, env

def run_job(v, r, env, seed, props):
    d = os.path.join(VERIF, seed)
    res = {}
    a = sh(["git", "-C", r, "apply", "--whitespace=nowarn", os.path.join(d, "patch.diff")])
    if a.returncode != 0:
        return {p: dict(exit=-1, caught=False, lines=["patch does not apply: " + a.stdout[:200]]) for p in props}
    try:
        for p in props:
            t0 = time.time()
            c = sh(["./check", p, "--tier", "quick"], cwd=v, env=env)
            lines = [l for l in c.stdout.split("\n") if l.startswith(("VIOLATION", "KNOWN-FINDING", "  "))]
            res[p] = dict(exit=c.returncode, caught=(c.returncode == 1 and any(l.startswith("VIOLATION") for l in lines)),
                          lines=[l[:400] for l in lines[:8]], wall_s=round(time.time() - t0, 1))
    finally:
        sh(["git", "-C", r, "checkout", "-q", "--", "."]); sh(["git", "-C", r, "clean", "-fdq"])
    return res

def main():
    a = sys.argv[1:]; n = 4; props = None; allp = False; seeds = []
    i = 0
    while i < len(a):
        if a[i] == "-j": n = int(a[i + 1]); i += 2
        elif a[i] == "--props": props = a[i + 1].split(","); i += 2
        elif a[i] == "--all-props": allp = True; i += 1
        else: seeds.append(a[i].rstrip("/")); i += 1
    claimed = [c["property_id"] for c in json.load(open(os.path.join(VERIF, "MANIFEST.json")))["checks"]]
    q = queue.Queue()
    for s in seeds:
        own = json.load(open(os.path.join(VERIF, s, "meta.json")))["property"]
        ps = claimed if allp else (props or [own])
        for p in ps: q.put((s, p))
    lock = threading.Lock()
    def worker(k):
        try:
            v, r, env = setup_worker(k)
        except Exception as e:
            print("worker", k, "failed:", e); return
        while True:
            try: s, p = q.get_nowait()
            except queue.Empty: return
            res = run_job(v, r, env, s, [p])
            with lock:
                out = os.path.join(VERIF, s, "result.json")
                old = json.load(open(out)) if os.path.exists(out) else {}
                old.update(res); json.dump(old, open(out, "w"), indent=1)
                x = res[p]; print(s, p, "exit", x["exit"], "caught" if x["caught"] else "missed", x.get("wall_s"), flush=True)
    ts = [threading.Thread(target=worker, args=(k,)) for k in range(n)]
    for t in ts: t.start()
    for t in ts: t.join()
    print("FARM DONE")
if __name__ == "__main__":
    main()
