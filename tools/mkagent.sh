#!/bin/sh
# tools/mkagent.sh <name>: private worktrees for a builder agent: /var/tmp/agents/<name>/{verif,repo}
set -e
n="$1"; root=/var/tmp/agents/$n
mkdir -p "$root"
[ -d "$root/verif" ] || git -C /verif worktree add -q "$root/verif" -b "agent-$n"
[ -d "$root/repo" ] || git -C /repo worktree add -q "$root/repo" -b "agent-$n"
echo "$root"
