#!/bin/bash
# tools/verifyseed.sh <Cxx> <k> "<what it needs to manifest>"
# Confirms a seeded change in its scratch worktree (/tmp/seed/<Cxx>/{repo,build}): unchanged tree -> demo exits 0;
# with the patch: builds, the existing suite passes, demo exits non-zero.  On success stores it as /verif/seeded/<Cxx>-<k>/.
set -u
P=$1; K=$2; NEEDS=${3:-}
S=/tmp/seed/$P; R=$S/repo; B=$S/build; O=$S/out/$K
export OMP_NUM_THREADS=1 OPENBLAS_NUM_THREADS=1
log=$O/verify.log; : > $log
say() { echo "$@" | tee -a $log; }
git -C $R checkout -q -- . ; git -C $R clean -fdq
[ -f $B/build.ninja ] || cmake -G Ninja -S $R -B $B -DCMAKE_BUILD_TYPE=RelWithDebInfo -DBUILD_TESTING=ON -DCPM_USE_LOCAL_PACKAGES=ON -DCMAKE_CXX_FLAGS=-Wno-error >> $log 2>&1
build() { cmake --build $B -j8 >> $log 2>&1; }
demo() {  # compile (if C++) and run the demonstration in its directory; echo exit code
  ARGS=$(cat $O/demo.args 2>/dev/null | sed "s|@R@|$R|g; s|@B@|$B|g")
  cd $O
  if [ -f demo.cpp ] && [ ! -f demo.sh ]; then
    g++ -std=gnu++17 -O1 -g -fopenmp -w -DUSE_OMP -DOPENMP_ITERATOR -DOPENMP_RANGEFOR -DOPENMP_UNSIGNED -DUSE_PROGRESSBAR \
      -I$R/OpenMEEG/include -I$R/OpenMEEGMaths/include -I$B -I$B/exports -I$B/OpenMEEG -I$B/OpenMEEGMaths -isystem /usr/include/hdf5/serial \
      demo.cpp -o demo.bin -Wl,-rpath,$B/OpenMEEG:$B/OpenMEEGMaths -L$B/OpenMEEG -L$B/OpenMEEGMaths -lOpenMEEG -lOpenMEEGMaths -llapacke -lopenblas -lmatio >> $log 2>&1 || { echo 99; return; }
    if [ "$P" = "C05" ] || [ -f $O/demo.threads ]; then env -u OMP_NUM_THREADS timeout 900 ./demo.bin $ARGS >> $log 2>&1; else timeout 600 ./demo.bin $ARGS >> $log 2>&1; fi; echo $?
  else
    if [ "$P" = "C05" ]; then env -u OMP_NUM_THREADS BUILD=$B REPO=$R timeout 1800 bash ./demo.sh $B >> $log 2>&1; else BUILD=$B REPO=$R timeout 900 bash ./demo.sh $B >> $log 2>&1; fi; echo $?
  fi
}
build || { say "unchanged tree does not build"; exit 2; }
d0=$(demo); say "demo on unchanged tree: exit $d0"
git -C $R apply --whitespace=nowarn $O/patch.diff || { say "patch does not apply"; exit 2; }
if build; then
  ( cd $B && ctest -j8 --timeout 900 > $O/ctest.log 2>&1 ); tail -3 $O/ctest.log | tee -a $log
  fails=$(grep -c "\*\*\*Failed\|\*\*\*Exception\|\*\*\*Timeout\|\*\*\*Not Run" $O/ctest.log)
  if [ "$fails" != "0" ]; then   # the suite has known races between parallel tests: rerun the failed ones serially
    ( cd $B && ctest -j1 --timeout 900 > $O/ctest_rerun.log 2>&1 ); tail -3 $O/ctest_rerun.log | tee -a $log
    fails=$(grep -c "\*\*\*Failed\|\*\*\*Exception\|\*\*\*Timeout\|\*\*\*Not Run" $O/ctest_rerun.log)
  fi
  d1=$(demo); say "demo with the change: exit $d1; failing tests: $fails"
else
  say "patched tree does not build"; d1=-1; fails=-1
fi
git -C $R checkout -q -- . ; git -C $R clean -fdq; build
if [ "$d0" = "0" ] && [ "$d1" != "0" ] && [ "$d1" != "99" ] && [ "$d1" != "-1" ] && [ "$fails" = "0" ]; then
  D=/verif/seeded/$P-$K; mkdir -p $D
  cp $O/patch.diff $D/; [ -f $O/demo.cpp ] && cp $O/demo.cpp $D/; [ -f $O/demo.sh ] && cp $O/demo.sh $D/; cp $O/README.md $D/ 2>/dev/null; [ -f $O/demo.args ] && cp $O/demo.args $D/
  python3 - "$D" "$P" "$NEEDS" "$d0" "$d1" <<'PY'
import json, sys
d, p, needs, d0, d1 = sys.argv[1:6]
json.dump(dict(property=p, needs=needs, written_by="independent sub-agent given only the property text and a scratch worktree",
               confirmed=dict(demo_exit_unchanged=int(d0), demo_exit_changed=int(d1), suite="ctest -j8 (OMP_NUM_THREADS=1): 0 failures with the change",
                              how="tools/verifyseed.sh: scratch worktree /tmp/seed/%s, build unchanged -> demo; git apply patch.diff -> rebuild -> ctest -> demo; revert" % p)),
          open(d + "/meta.json", "w"), indent=1)
PY
  say "KEPT as $D"
else
  say "REJECTED (d0=$d0 d1=$d1 fails=$fails)"
fi
